def jobs(tier, ctx):
    J = []
    nb = 6 if tier == 'quick' else 9
    J.append(dict(name='legal_path.n%d' % nb, srcs=['lib/efuns/file_utils.c', '@harness/C15/legal_path.c'],
                  stubs=['@world/world_base.c', '@world/libc_models.c'], defs=['NB=%d' % nb], unwind=nb + 3,
                  targets=['legal_path'], timeout=300, mem_gb=4,
                  desc='legal_path(p) => p relative and no ".." component, for every string of <= %d bytes' % nb,
                  inputs='p: %d symbolic bytes + NUL' % nb))
    na = 11 if tier == 'quick' else 14
    J.append(dict(name='legal_path.alpha%d' % na, srcs=['lib/efuns/file_utils.c', '@harness/C15/legal_path.c'],
                  stubs=['@world/world_base.c', '@world/libc_models.c'], defs=['NB=%d' % na, 'ALPHABET=1'], unwind=na + 3,
                  targets=['legal_path'], timeout=600, mem_gb=6,
                  desc='same, strings of <= %d bytes over the alphabet {. / a # NUL} (the classes the function distinguishes)' % na,
                  inputs='p: %d symbolic bytes from a 5-letter alphabet' % na,
                  assumptions=['legal_path distinguishes only the byte classes . / # NUL other (argued from the code) for the long-path variant']))
    return J
