def jobs(tier, ctx):
    J = []
    nb = 6 if tier == 'quick' else 9
    J.append(dict(name='legal_path.n%d' % nb, srcs=['lib/efuns/file_utils.c', '@harness/C15/legal_path.c'],
                  stubs=['@world/world_base.c', '@world/libc_models.c'], defs=['NB=%d' % nb], unwind=nb + 3,
                  targets=['legal_path'], timeout=300, mem_gb=4,
                  desc='legal_path(p) => p relative and no ".." component, for every string of <= %d bytes' % nb,
                  inputs='p: %d symbolic bytes + NUL' % nb))
    na = 11 if tier == 'quick' else 14
    J.append(dict(name='legal_path.alpha%d' % na, srcs=['lib/efuns/file_utils.c', '@harness/C15/legal_path.c'],
                  stubs=['@world/world_base.c', '@world/libc_models.c'], defs=['NB=%d' % na, 'ALPHABET=1'], unwind=na + 3,
                  targets=['legal_path'], timeout=600, mem_gb=6,
                  desc='same, strings of <= %d bytes over the alphabet {. / a # NUL} (the classes the function distinguishes)' % na,
                  inputs='p: %d symbolic bytes from a 5-letter alphabet' % na,
                  assumptions=['legal_path distinguishes only the byte classes . / # NUL other (argued from the code) for the long-path variant']))
    nn = 4 if tier == 'quick' else 6
    for (cf, nm) in (('"d/f.c"', 'sub'), ('"f.c"', 'root')):
        J.append(dict(name='include_path.%s.n%d' % (nm, nn), srcs=['@harness/C15/include_path.c'], stubs=['@world/world_base.c', '@world/libc_models.c', '@world/world_err.c'], defs=['NB=%d' % nn, 'CURFILE=' + cf], unwind=nn + 12,
                      nobody_ok=['*'], targets=['inc_open', 'inc_lexically_normal'], timeout=400, mem_gb=8, opt_witness=['searched_include_dir'],
                      desc='#include of any header name of <= %d bytes from %s with one include directory: every path handed to open() is relative and has no ".." component' % (nn, cf),
                      inputs='%d header name bytes' % nn, assumptions=['open() always fails so that the whole search order is exercised']))
    return J
