/* C15(1): legal_path(p) implies p is relative and has no ".." component.
 * Real: lib/efuns/file_utils.c legal_path.  Input: every NUL-terminated string of <= NB bytes. */
#include <config.h>
#include "std.h"
#include "efuns/file_utils.h"
#include "verif.h"
#ifndef NB
#define NB 6
#endif
#define IN_FIELDS(S,A) A(char, p, NB + 1)
#include "verif_in.h"

/* reference predicate written from the statement only */
static int ref_bad (const char *p)
{
  int i = 0, start = 0;
  if (p[0] == '/') return 1;
  for (i = 0;; i++)
    {
      if (p[i] == '/' || p[i] == 0)
        {
          if (i - start == 2 && p[start] == '.' && p[start + 1] == '.') return 1;
          start = i + 1;
          if (p[i] == 0) break;
        }
    }
  return 0;
}

void harness (void)
{
  verif_in_init ();
  IN.p[NB] = 0;
#ifdef ALPHABET
  for (int i = 0; i < NB; i++)
    __CPROVER_assume (IN.p[i] == 0 || IN.p[i] == '.' || IN.p[i] == '/' || IN.p[i] == 'a' || IN.p[i] == '#');
#endif
  int ok = legal_path (IN.p);
  int bad = ref_bad (IN.p);
  VERIF_ASSERT ("C15.legal_path.accepts_only_confined", !(ok && bad));
  if (ok) VERIF_WITNESS ("accepted");
  if (!ok) VERIF_WITNESS ("rejected");
}
