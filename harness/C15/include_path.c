/* C15(4): #include never opens a path that is absolute or has a ".." component.
 * Real: lib/lpc/lex.c inc_open, inc_lexically_normal (static, via #include).
 * The including file is CURFILE (a legal mudlib path), one include directory "inc" is configured, the header name is
 * ANY string of <= NB bytes.  Every path handed to open() is checked against the statement's predicate.
 */
#include "lib/lpc/lex.c"
#include "verif.h"
#ifndef NB
#define NB 5
#endif
#define IN_FIELDS(S,A) A(char, name, NB + 1)
#include "verif_in.h"
void verif_on_error (void) { }
static int opens;
static int confined (const char *p)
{
  int i, start = 0;
  if (p[0] == '/') return 0;
  for (i = 0;; i++)
    if (p[i] == '/' || p[i] == 0)
      {
        if (i - start == 2 && p[start] == '.' && p[start + 1] == '.') return 0;
        start = i + 1;
        if (p[i] == 0) break;
      }
  return 1;
}
int open (const char *path, int flags, ...)
{
  (void) flags;
  opens++;
  VERIF_ASSERT ("C15.include.opened_path_is_relative_without_dotdot", confined (path));
  return -1;                      /* not found: the search goes on through the include directories */
}
void harness (void)
{
  char buf[64]; static char *dirs[1]; static char inc[] = "inc"; static char cur[] = CURFILE;
  verif_in_init ();
  IN.name[NB] = 0;
  dirs[0] = inc; inc_list = dirs; inc_list_size = 1;
  current_file = cur;
  inc_open (buf, IN.name);
  if (opens >= 2) VERIF_WITNESS ("searched_include_dir");
  VERIF_WITNESS ("end");
}
