BASE = ['@world/world_base.c', '@world/libc_models.c', '@world/world_err.c', '@world/vm_world.c']
def jobs(tier, ctx):
    out = []
    for inc in (0, 1):
        out.append(dict(name='stale_gate.inc%d' % inc, srcs=['@harness/C17/stale_gate.c'], stubs=BASE, defs=['HAS_INC=%d' % inc, 'VMW_HAVE_NOTHING=1'], unwind=12, nobody_ok=['*'],
                        targets=['load_binary', 'check_times'], timeout=300, mem_gb=8, opt_witness=['binary_accepted', 'binary_refused'],
                        desc='load_binary with symbolic mtimes of binary / source / %s, stored magic, driver id, config id and name: the program image is only read when every dependency is not newer and the ids and name match' % ('one include' if inc else 'no include'),
                        inputs='mtimes, existence flags, stored ids, outcome of open/fstat/fdopen', assumptions=['file system and stdio are stubs; inherited programs, equality of the loaded program with a fresh compile and relocation are outside']))
    return out
