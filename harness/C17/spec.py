BASE = ['@world/world_base.c', '@world/libc_models.c', '@world/world_err.c', '@world/vm_world.c']
def jobs(tier, ctx):
    out = []
    for inc in (0, 1):
        out.append(dict(name='stale_gate.inc%d' % inc, srcs=['@harness/C17/stale_gate.c'], stubs=BASE, defs=['HAS_INC=%d' % inc, 'VMW_HAVE_NOTHING=1'], unwind=12, nobody_ok=['*'],
                        targets=['load_binary', 'check_times'], timeout=300, mem_gb=8, opt_witness=['binary_accepted', 'binary_refused'],
                        desc='load_binary with symbolic mtimes of binary / source / %s, stored magic, driver id, config id and name: the program image is only read when every dependency is not newer and the ids and name match' % ('one include' if inc else 'no include'),
                        inputs='mtimes, existence flags, stored ids, outcome of open/fstat/fdopen', assumptions=['file system and stdio are stubs; inherited programs, equality of the loaded program with a fresh compile and relocation are outside']))
    out.append(dict(name='stale_gate.inherit', srcs=['@harness/C17/stale_gate.c'], stubs=BASE, defs=['HAS_INC=0', 'HAS_INH=1', 'VMW_HAVE_NOTHING=1', 'VERIF_NO_XALLOC=1'], unwind=12, nobody_ok=['*'],
                    unwindset=['fread.0:%d' % 400, 'name_is.0:9'],
                    targets=['load_binary', 'check_times'], timeout=300, mem_gb=8, opt_witness=['binary_accepted', 'binary_refused', 'inherited_binary_present'],
                    desc='load_binary of a program that inherits one program: the inherited program is only looked up (binary accepted) when the inherited source exists and is not newer and the inherited program\'s own saved binary, if present under SaveBinaryDir (configured with a leading slash), is not newer than this binary',
                    inputs='mtimes and existence of source, inherited source, inherited saved binary; ids',
                    assumptions=['file system and stdio are stubs; one inherit entry; the program image is a zeroed program_t with the inherit table behind it', 'equality of the loaded program with a fresh compile and relocation are outside']))
    import itertools, os
    # the scratch arrays of sort_function_table come from CALLOCATE (see DESIGN corrections 19 and world/world_base.c xalloc)
    for nf in ((2, 3) if tier == 'quick' else (2, 3, 4)):
      for perm in itertools.permutations(range(nf)):
        out.append(dict(name='resort.n%d.order%s' % (nf, ''.join(map(str, perm))), srcs=['@harness/C17/resort.c', 'lib/misc/qsort.c'], stubs=BASE, defs=['NF=%d' % nf, 'ORDER=' + ','.join(map(str, perm)), 'VMW_HAVE_NOTHING=1'], unwind=2 * nf + 6, nobody_ok=['*'],
                        targets=['sort_function_table', 'compare_compiler_funcs'], timeout=300, mem_gb=4, opt_witness=['order_changed'], restrict_fp=['qSort.function_pointer_call.1/compare_compiler_funcs'], union_as_struct=False,
                        desc='sort_function_table on a flat program of %d functions whose names get the relative address order %s at load time: the table is sorted, every runtime index reaches the same function, the argument type offsets follow their function' % (nf, perm),
                        inputs='type_start values (the address order is one concrete permutation per job; all permutations are run)', assumptions=['flat program (no inherited, overloaded or deleted entries in the compressed table)']))
    return out
