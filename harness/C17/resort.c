/* C17: "a program loaded from a saved binary equals its source": after load_binary re-sorts the function table by the new
 * addresses of the function names, every runtime index still reaches the same function and every per-function table that
 * is indexed like the function table (argument type start offsets) has followed its function.
 * Real: lib/lpc/program/binaries.c sort_function_table, compare_compiler_funcs; lib/misc quickSort.
 * A flat program (no inherited / overloaded entries) with N functions whose names get ANY relative address order.
 */
#include "lib/lpc/program/binaries.c"
#include "verif.h"
#ifndef NF
#define NF 3
#endif
#define IN_FIELDS(S,A) A(int, nameoff, NF) A(unsigned short, ts, NF)
#include "verif_in.h"
void verif_on_error (void) { }
static char NAMES[2 * NF + 2];
static program_t P; static compiler_function_t FT[NF]; static unsigned short FLAGS[NF], TS[NF]; static runtime_function_u OFF[NF];
static compressed_offset_table_t CT;
void harness (void)
{
  int i, j;
  verif_in_init ();
  for (i = 0; i < 2 * NF + 2; i++) NAMES[i] = (i & 1) ? 0 : (char) ('a' + i / 2);      /* "a\0b\0c\0": one object, so addresses compare */
  for (i = 0; i < NF; i++)
    {
#ifdef ORDER
      { static const int ord[NF] = { ORDER }; __CPROVER_assume (IN.nameoff[i] == ord[i]); IN.nameoff[i] = ord[i]; }     /* one job per address order: the sort then runs concretely */
#endif
      __CPROVER_assume (IN.nameoff[i] >= 0 && IN.nameoff[i] < NF);
      for (j = 0; j < i; j++) __CPROVER_assume (IN.nameoff[i] != IN.nameoff[j]);       /* distinct shared strings */
      FT[i].name = NAMES + 2 * IN.nameoff[i]; FT[i].type = 0; FT[i].runtime_index = (function_index_t) i; FT[i].address = (function_address_t) (10 + i);
      FLAGS[i] = 0; OFF[i].def.f_index = (function_number_t) i; OFF[i].def.num_arg = 0; OFF[i].def.num_local = 0;
      TS[i] = IN.ts[i];
    }
  P.name = "p"; P.function_table = FT; P.function_flags = FLAGS; P.function_offsets = OFF; P.function_compressed = &CT; P.type_start = TS;
  P.num_functions_defined = NF; P.num_functions_total = NF;
  CT.first_defined = 0; CT.first_overload = 0; CT.num_compressed = 0; CT.num_deleted = 0;
  sort_function_table (&P);
  for (i = 1; i < NF; i++) VERIF_ASSERT ("C17.resort.table_sorted_by_name_address", FT[i - 1].name < FT[i].name);
  for (i = 0; i < NF; i++)
    {
      int fi = OFF[i].def.f_index;
      VERIF_ASSERT ("C17.resort.runtime_index_in_range", fi >= 0 && fi < NF);
      if (fi >= 0 && fi < NF)
        {
          VERIF_ASSERT ("C17.resort.runtime_index_reaches_the_same_function", FT[fi].address == 10 + i && FT[fi].runtime_index == i);
          VERIF_ASSERT ("C17.resort.argument_types_follow_their_function", TS[fi] == IN.ts[i]);
        }
    }
  if (IN.nameoff[0] > IN.nameoff[1]) VERIF_WITNESS ("order_changed");
  VERIF_WITNESS ("end");
}
