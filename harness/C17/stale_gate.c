/* C17(1): a saved binary is never used when its source, an included file, the driver id or the configuration id is
 * newer/different.  Real: lib/lpc/program/binaries.c load_binary (up to the point where it starts reading the program
 * image) and check_times (via #include).
 * The file system is a stub: binary mtime, source mtime (or absent), one optional include with its mtime, stored magic,
 * driver id, config id and program name are all symbolic.  The first read of the program image marks "binary accepted".
 */
#include "lib/lpc/program/binaries.c"
#include "verif.h"
#include <sys/stat.h>
#define IN_FIELDS(S,A) S(int64_t, t_bin) S(int64_t, t_src) S(int, src_exists) S(int, has_inc) S(int64_t, t_inc) S(int, inc_exists) \
  S(int, magic_ok) S(uint32_t, drv) S(uint64_t, cfg) S(int, name_ok) S(int, open_ok) S(int, fstat_ok) S(int, fdopen_ok) \
  S(int64_t, t_isrc) S(int, isrc_exists) S(int64_t, t_ibin) S(int, ibin_exists)
#include "verif_in.h"
void verif_on_error (void) { }
static int reads, accepted; static FILE fake;
int open (const char *p, int fl, ...) { (void) p; (void) fl; return IN.open_ok ? 5 : -1; }
int fstat (int fd, struct stat *st) { (void) fd; if (!IN.fstat_ok) return -1; st->st_mtime = (time_t) IN.t_bin; return 0; }
FILE *fdopen (int fd, const char *m) { (void) fd; (void) m; return IN.fdopen_ok ? &fake : 0; }
int close (int fd) { (void) fd; return 0; }
int fclose (FILE *f) { (void) f; return 0; }
#ifndef HAS_INH
#define HAS_INH 0
#endif
static void gate_oracles (void)
{
  VERIF_ASSERT ("C17.gate.binary_not_older_than_source", IN.src_exists && IN.t_src <= IN.t_bin);
  VERIF_ASSERT ("C17.gate.binary_not_older_than_include", !IN.has_inc || (IN.inc_exists && IN.t_inc <= IN.t_bin));
  VERIF_ASSERT ("C17.gate.same_driver_bytecode_format", IN.drv == driver_id && IN.magic_ok);
  VERIF_ASSERT ("C17.gate.same_configuration_simul_efun", IN.cfg == config_id);
  VERIF_ASSERT ("C17.gate.stored_name_matches", IN.name_ok);
}
#if HAS_INH
/* the program image block is one typed object (a byte block makes every field read an unfolded byte extract) */
struct progimg { program_t p; inherit_t inh[1]; };
char *xalloc (size_t n)
{
  char *q;
  if (n == sizeof (struct progimg)) { struct progimg *g = malloc (sizeof (struct progimg)); __CPROVER_assume (g != 0); return (char *) g; }
  q = malloc (n); __CPROVER_assume (q != 0); return q;
}
/* the shared-string table is not the subject: the program name is kept as given */
char *make_shared_string (const char *s0) { return (char *) s0; }
void free_string (char *s0) { (void) s0; }
/* the loader resolves the inherited program only after its staleness checks: reaching this = binary accepted so far */
object_t *find_object_by_name (const char *nm)
{
  (void) nm;
  gate_oracles ();
  VERIF_ASSERT ("C17.gate.binary_not_older_than_inherited_source", IN.isrc_exists && IN.t_isrc <= IN.t_bin);
  VERIF_ASSERT ("C17.gate.binary_not_older_than_inherited_binary", !IN.ibin_exists || IN.t_ibin <= IN.t_bin);
  VERIF_WITNESS ("binary_accepted");
  if (IN.ibin_exists) VERIF_WITNESS ("inherited_binary_present");
  VERIF_END_PATH ();
  return 0;
}
static int name_is (const char *a, const char *b) { int i; for (i = 0; i < 8; i++) { if (a[i] != b[i]) return 0; if (!a[i]) return 1; } return 0; }
#endif
int stat (const char *nm, struct stat *st)
{
#if HAS_INH
  /* files of the inherited program "p.c": its source, and its saved binary at the mudlib-relative path "b/p.b" (the
     configured SaveBinaryDir is "/b"); any other spelling of that path does not exist */
  if (name_is (nm, "p.c")) { if (!IN.isrc_exists) return -1; st->st_mtime = (time_t) IN.t_isrc; return 0; }
  if (name_is (nm, "b/p.b")) { if (!IN.ibin_exists) return -1; st->st_mtime = (time_t) IN.t_ibin; return 0; }
  if (nm[0] == '/' || nm[0] == 'b') return -1;
#endif
  if (nm[0] == 'i') { if (!IN.inc_exists) return -1; st->st_mtime = (time_t) IN.t_inc; return 0; }   /* the include file "i.h" */
  if (!IN.src_exists) return -1;                                                                    /* the source "o.c" */
  st->st_mtime = (time_t) IN.t_src; return 0;
}
size_t fread (void *buf, size_t sz, size_t n, FILE *f)
{
  char *b = (char *) buf; int k = reads++;
  (void) f;
  switch (k)
    {
    case 0: if (IN.magic_ok) { b[0] = 'N'; b[1] = 'E'; b[2] = 'O'; b[3] = 'L'; } else { b[0] = 'X'; b[1] = 'E'; b[2] = 'O'; b[3] = 'L'; } return 1;
    case 1: *(uint32_t *) buf = IN.drv; return 1;
    case 2: *(uint64_t *) buf = IN.cfg; return 1;
    case 3: *(uint16_t *) buf = IN.has_inc ? 4 : 0; return 1;                 /* include list: "i.h\0" or empty */
    case 4: if (IN.has_inc) { b[0] = 'i'; b[1] = '.'; b[2] = 'h'; b[3] = 0; } return sz * n ? n : 0;
    case 5: *(uint16_t *) buf = 3; return 1;                                  /* stored program name length */
    case 6: b[0] = IN.name_ok ? 'o' : 'p'; b[1] = '.'; b[2] = 'c'; return n;
#if HAS_INH
    /* program image: a program_t with one inherit entry placed right behind it (offsets as the saver writes them) */
    case 7: *(uint32_t *) buf = (uint32_t) sizeof (struct progimg); return 1;
    case 8:
      {
        struct progimg *g = (struct progimg *) buf; static const struct progimg zero;
        *g = zero;
        g->p.num_inherited = 1; g->p.inherit = (inherit_t *) (intptr_t) offsetof (struct progimg, inh);
        return 1;
      }
    case 9: *(uint16_t *) buf = 3; return 1;                                  /* inherited program name "p.c" */
    case 10: b[0] = 'p'; b[1] = '.'; b[2] = 'c'; return n;
    default:
      VERIF_UNREACHABLE ("read beyond the inherit list");
      return 0;
#else
    default:
      /* the loader starts reading the program image: the binary has been accepted as current */
      accepted = 1;
      gate_oracles ();
      VERIF_WITNESS ("binary_accepted");
      VERIF_END_PATH ();
      return 0;
#endif
    }
}
void harness (void)
{
  program_t *p;
#if HAS_INH
  static char dir[] = "/b";     /* a SaveBinaryDir written with a leading slash (the loader strips it for mudlib-relative access) */
#else
  static char dir[] = "b";
#endif
  verif_in_init ();
  __CPROVER_assume (IN.t_bin >= 0 && IN.t_src >= 0 && IN.t_inc >= 0 && IN.has_inc == HAS_INC && IN.t_isrc >= 0 && IN.t_ibin >= 0);
  IN.has_inc = HAS_INC;
  CONFIG_STR (__SAVE_BINARIES_DIR__) = dir;
  config_id = 77;
  p = load_binary ("o.c");
  VERIF_ASSERT ("C17.gate.refusal_returns_out_of_date", p == OUT_OF_DATE);
  VERIF_WITNESS ("binary_refused");
}
