/* C17(1): a saved binary is never used when its source, an included file, the driver id or the configuration id is
 * newer/different.  Real: lib/lpc/program/binaries.c load_binary (up to the point where it starts reading the program
 * image) and check_times (via #include).
 * The file system is a stub: binary mtime, source mtime (or absent), one optional include with its mtime, stored magic,
 * driver id, config id and program name are all symbolic.  The first read of the program image marks "binary accepted".
 */
#include "lib/lpc/program/binaries.c"
#include "verif.h"
#include <sys/stat.h>
#define IN_FIELDS(S,A) S(int64_t, t_bin) S(int64_t, t_src) S(int, src_exists) S(int, has_inc) S(int64_t, t_inc) S(int, inc_exists) \
  S(int, magic_ok) S(uint32_t, drv) S(uint64_t, cfg) S(int, name_ok) S(int, open_ok) S(int, fstat_ok) S(int, fdopen_ok)
#include "verif_in.h"
void verif_on_error (void) { }
static int reads, accepted; static FILE fake;
int open (const char *p, int fl, ...) { (void) p; (void) fl; return IN.open_ok ? 5 : -1; }
int fstat (int fd, struct stat *st) { (void) fd; if (!IN.fstat_ok) return -1; st->st_mtime = (time_t) IN.t_bin; return 0; }
FILE *fdopen (int fd, const char *m) { (void) fd; (void) m; return IN.fdopen_ok ? &fake : 0; }
int close (int fd) { (void) fd; return 0; }
int fclose (FILE *f) { (void) f; return 0; }
int stat (const char *nm, struct stat *st)
{
  if (nm[0] == 'i') { if (!IN.inc_exists) return -1; st->st_mtime = (time_t) IN.t_inc; return 0; }   /* the include file "i.h" */
  if (!IN.src_exists) return -1;                                                                    /* the source "o.c" */
  st->st_mtime = (time_t) IN.t_src; return 0;
}
size_t fread (void *buf, size_t sz, size_t n, FILE *f)
{
  char *b = (char *) buf; int k = reads++;
  (void) f;
  switch (k)
    {
    case 0: if (IN.magic_ok) { b[0] = 'N'; b[1] = 'E'; b[2] = 'O'; b[3] = 'L'; } else { b[0] = 'X'; b[1] = 'E'; b[2] = 'O'; b[3] = 'L'; } return 1;
    case 1: *(uint32_t *) buf = IN.drv; return 1;
    case 2: *(uint64_t *) buf = IN.cfg; return 1;
    case 3: *(uint16_t *) buf = IN.has_inc ? 4 : 0; return 1;                 /* include list: "i.h\0" or empty */
    case 4: if (IN.has_inc) { b[0] = 'i'; b[1] = '.'; b[2] = 'h'; b[3] = 0; } return sz * n ? n : 0;
    case 5: *(uint16_t *) buf = 3; return 1;                                  /* stored program name length */
    case 6: b[0] = IN.name_ok ? 'o' : 'p'; b[1] = '.'; b[2] = 'c'; return n;
    default:
      /* the loader starts reading the program image: the binary has been accepted as current */
      accepted = 1;
      VERIF_ASSERT ("C17.gate.binary_not_older_than_source", IN.src_exists && IN.t_src <= IN.t_bin);
      VERIF_ASSERT ("C17.gate.binary_not_older_than_include", !IN.has_inc || (IN.inc_exists && IN.t_inc <= IN.t_bin));
      VERIF_ASSERT ("C17.gate.same_driver_bytecode_format", IN.drv == driver_id && IN.magic_ok);
      VERIF_ASSERT ("C17.gate.same_configuration_simul_efun", IN.cfg == config_id);
      VERIF_ASSERT ("C17.gate.stored_name_matches", IN.name_ok);
      VERIF_WITNESS ("binary_accepted");
      VERIF_END_PATH ();
      return 0;
    }
}
void harness (void)
{
  program_t *p; static char dir[] = "b";
  verif_in_init ();
  __CPROVER_assume (IN.t_bin >= 0 && IN.t_src >= 0 && IN.t_inc >= 0 && IN.has_inc == HAS_INC);
  IN.has_inc = HAS_INC;
  CONFIG_STR (__SAVE_BINARIES_DIR__) = dir;
  config_id = 77;
  p = load_binary ("o.c");
  VERIF_ASSERT ("C17.gate.refusal_returns_out_of_date", p == OUT_OF_DATE);
  VERIF_WITNESS ("binary_refused");
}
