/* C05(3): error_handler() leaves no driver guard set when it jumps back to the catch point / the driver.
 * Real: src/error_context.c error_handler (via #include).  longjmp is a stub that records the state the jump leaves.
 * Entry states: caught by catch() or not, any combination of the re-entrancy flags, a current heart beat or none.
 * The guards of load_object/destruct_object (static in simulate.c) are observed through their reset functions.
 */
#include "src/error_context.c"
#include "verif.h"
#define IN_FIELDS(S,A) S(int, caught) S(int, in_err) S(int, in_mud) S(int, has_hb)
#include "verif_in.h"
void vm_world_init (void);
extern int eg_destruct_resets, eg_load_resets, eg_hb_off, eg_jumped;
static object_t HBOB; static error_context_t ECTX;
void verif_on_error (void) { }
void harness (void)
{
  verif_in_init ();
  __CPROVER_assume (IN.caught == CAUGHT); IN.caught = CAUGHT;
  vm_world_init ();
  init_strings (4, 100);
  push_control_stack (FRAME_FUNCTION);
  save_context (&ECTX);
  push_control_stack (IN.caught ? FRAME_CATCH : FRAME_FUNCTION);       /* the frame right above the context decides "caught" */
  in_error = IN.in_err ? 1 : 0; in_mudlib_error_handler = IN.in_mud ? 1 : 0;
  current_heart_beat = IN.has_hb ? &HBOB : 0; HBOB.name = "hb";
  error_handler ("*boom\n");
  VERIF_ASSERT ("C05.guards.error_handler_never_returns", 0);
}
