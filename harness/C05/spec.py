BASE = ['@world/world_base.c', '@world/libc_models.c', '@world/vm_world.c', '@world/world_err.c', '@harness/C05/stubs.c']
ECUT = ['error', 'error_handler', 'bad_arg', 'bad_argument', 'throw_error', 'mudlib_error_handler', 'debug_message_with_location']
import os
UAS = os.environ.get('UAS', '1') == '1'
def jobs(tier, ctx):
    out = []
    combos = [(0, 0, 1, 0, 0), (1, 2, 2, 3, 1), (0, 1, 3, 2, 0), (1, 0, 1, 3, 1), (0, 1, 0, 2, 0), (1, 0, 0, 3, 0)] if tier == 'quick' else [(d, s0, f, p, n) for d in (0, 1) for s0 in (0, 2) for f in (0, 1, 2, 3) for p in (0, 1, 3) for n in (0, 1) if not (f == 0 and n == 1)]
    for (d, s0, f, p, n) in combos:
      out.append(dict(name='context_roundtrip.d%d_s%d_f%d_p%d_n%d' % (d, s0, f, p, n), srcs=['@harness/C05/context_roundtrip.c', 'src/frame.c', 'src/stack.c', 'lib/lpc/svalue.c', 'src/stralloc.c', 'lib/misc/hash.c'],
                    stubs=BASE, defs=['DEPTH0=%d' % d, 'SP0=%d' % s0, 'NFRAMES=%d' % f, 'NPUSH=%d' % p, 'NESTED=%d' % n], unwind=8, union_as_struct=UAS, cuts=['do_catch'] + ECUT, nobody_ok=['do_catch', 'throw_error', 'mudlib_error_handler', 'debug_message_with_location', 'error_handler'],
                    targets=['save_context', 'restore_context', 'pop_context', 'push_control_stack', 'pop_control_stack', 'pop_n_elems', 'free_svalue'], timeout=600, mem_gb=10,
                    opt_witness=['handler_and_array', 'three_frames', 'nested_context'],
                    desc='save_context; 1..3 frames of any kind with changed registers, 0..3 pushed values (number/string/array/error handler), nested context, command giver changed; restore_context+pop_context: every register, the handler chain and ref counts are back',
                    inputs='frame kinds, register values, value kinds, nesting, stack depth before',
                    assumptions=['longjmp is modelled by calling the landing site code (restore_context; pop_context) from the state the jump can arrive in',
                                 'the catch point has at least one frame below it (csp == control_stack-1 is outside CBMC pointer model)']))
    for caught in (0, 1):
        out.append(dict(name='error_guards.caught%d' % caught, srcs=['@harness/C05/error_guards.c', 'src/frame.c', 'src/stack.c', 'lib/lpc/svalue.c', 'src/stralloc.c', 'lib/misc/hash.c'],
                        stubs=['@world/world_base.c', '@world/libc_models.c', '@world/vm_world.c', '@harness/C05/stubs.c', '@harness/C05/error_guard_stubs.c'], defs=['CAUGHT=%d' % caught], unwind=8, nobody_ok=['*'],
                        cuts=['do_catch', 'error', 'bad_arg', 'bad_argument'], targets=['error_handler'], timeout=300, mem_gb=6, opt_witness=['jumped_to_context'],
                        desc='real error_handler() for an error %s, from any combination of the in_error / in_mudlib_error_handler flags and with or without a current heart beat: the load_object and destruct_object guards have been reset whenever it jumps' % ('caught by catch()' if caught else 'reaching the driver'),
                        inputs='re-entrancy flags, heart beat', assumptions=['the master error handler (mudlib_error_handler) is cut; longjmp is a recording stub']))
    return out
