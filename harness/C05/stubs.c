#include "all_types.h"
#include "std.h"
#include "lpc/types.h"
#include "lpc/object.h"
#include "lpc/array.h"
#include "lpc/mapping.h"
#include "lpc/class.h"
#include "lpc/functional.h"
#include "verif.h"
void dealloc_object (object_t *o, const char *f) { (void) o; (void) f; VERIF_UNREACHABLE ("dealloc_object"); }
void dealloc_array (array_t *a) { (void) a; VERIF_UNREACHABLE ("dealloc_array"); }
void dealloc_class (array_t *a) { (void) a; VERIF_UNREACHABLE ("dealloc_class"); }
void dealloc_mapping (mapping_t *m) { (void) m; VERIF_UNREACHABLE ("dealloc_mapping"); }
void dealloc_funp (funptr_t *f) { (void) f; VERIF_UNREACHABLE ("dealloc_funp"); }
