#include "all_types.h"
#include <setjmp.h>
#include "verif.h"
int eg_destruct_resets, eg_load_resets, eg_hb_off, eg_jumped;
extern object_t *current_heart_beat;
void reset_destruct_object_limits (void) { eg_destruct_resets++; }
void reset_load_object_limits (void) { eg_load_resets++; }
int in_fatal_error (void) { return 0; }
int set_heart_beat (object_t *ob, int to) { (void) ob; if (!to) eg_hb_off++; return 1; }
char *dump_trace (int how) { (void) how; return 0; }
int g_trace_flag;
/* the landing point of every error: what state does the jump leave behind? */
void longjmp (struct __jmp_buf_tag env[1], int val)
{
  (void) env; (void) val;
  eg_jumped = 1;
  VERIF_ASSERT ("C05.guards.destruct_guard_reset_before_jump", eg_destruct_resets >= 1);
  VERIF_ASSERT ("C05.guards.load_guard_reset_before_jump", eg_load_resets >= 1);
  VERIF_WITNESS ("jumped_to_context");
  VERIF_END_PATH ();
  for (;;) ;
}
/* the master's error handler apply and the trace it is given are not the subject: cheap stand-ins */
static mapping_t eg_map;
mapping_t *allocate_mapping (size_t n) { (void) n; return &eg_map; }
void add_mapping_string (mapping_t *m, char *k, const char *v) { (void) m; (void) k; (void) v; }
void add_mapping_object (mapping_t *m, char *k, object_t *v) { (void) m; (void) k; (void) v; }
void add_mapping_array (mapping_t *m, char *k, array_t *v) { (void) m; (void) k; (void) v; }
void add_mapping_pair (mapping_t *m, char *k, int v) { (void) m; (void) k; (void) v; }
void push_refed_mapping (mapping_t *m) { (void) m; }
array_t *get_svalue_trace (int x) { (void) x; return 0; }
void get_line_number_info (char **f, int *l) { *f = "f"; *l = 1; }
char *get_line_number (const char *p, const program_t *pr) { (void) p; (void) pr; return "f:1"; }
svalue_t *apply_master_ob (const char *f, int n) { (void) f; (void) n; return 0; }
