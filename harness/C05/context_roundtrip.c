/* C05(1): save_context -> arbitrary legal evolution -> restore_context + pop_context restores every VM register,
 * releases every value pushed since exactly once and runs pushed error handlers exactly once.
 * Real: src/error_context.c (save_context, restore_context, pop_context; via #include), src/frame.c
 * (push_control_stack, pop_control_stack), src/stack.c (push_*, pop_n_elems), lib/lpc/svalue.c (free_svalue).
 */
#include "src/error_context.c"
#include "lpc/array.h"
#include "verif.h"
#define NF 3
#define NV 3
#define IN_FIELDS(S,A) S(int, depth0) S(int, nframes) A(int, fkind, NF) S(int, npush) A(int, vkind, NV) A(int64_t, vnum, NV) \
  S(int, nested) S(int, cg) A(int, regs, 12) S(int, sp0)
#include "verif_in.h"
void vm_world_init (void);
void verif_on_error (void) { }
static object_t OA, OB, OC; static program_t PA, PB; static array_t ARR; static char code[16];
static int handler_runs;
static void the_handler (void) { handler_runs++; }
static object_t *OBJ (int i) { switch (i & 3) { case 0: return 0; case 1: return &OA; case 2: return &OB; default: return &OC; } }
static program_t *PRG (int i) { return (i & 1) ? &PA : &PB; }
static void set_regs (int base)
{
  current_object = OBJ (IN.regs[base]); previous_ob = OBJ (IN.regs[base + 1]); current_prog = PRG (IN.regs[base + 2]);
  caller_type = IN.regs[base + 3] & 0xff; pc = code + (IN.regs[base + 4] & 7); fp = start_of_stack + (IN.regs[base + 5] & 3);
  function_index_offset = IN.regs[base + 1] & 15; variable_index_offset = IN.regs[base + 2] & 15;
}

void harness (void)
{
  error_context_t outer, econ, inner; int i, d;
  svalue_t *sp_s, *fp_s; control_stack_t *csp_s; const char *pc_s; object_t *co_s, *po_s, *cg_s; program_t *cp_s; int ct_s, fio_s, vio_s;
  error_context_t *ctx_s;
  verif_in_init ();
  vm_world_init ();
  ARR.ref = 1; ARR.size = 0;
  /* some frames and values exist before the catch point */
  /* stack depths are concrete per run so that sp/csp stay concrete pointers (rule 9); kinds and register values are symbolic */
  __CPROVER_assume (IN.depth0 == DEPTH0 && IN.sp0 == SP0 && IN.nframes == NFRAMES && IN.npush == NPUSH && IN.nested == NESTED);
  IN.depth0 = DEPTH0; IN.sp0 = SP0; IN.nframes = NFRAMES; IN.npush = NPUSH; IN.nested = NESTED;
  /* one base frame always exists: a catch point on an EMPTY control stack has csp == control_stack - 1, a pointer
     before its object, whose ordering CBMC does not model (outside the claim; see DESIGN 3.4) */
  set_regs (6); push_control_stack (FRAME_FAKE);
  for (i = 0; i < 2; i++) if (i < IN.sp0) push_number (i + 40);
  if (IN.depth0) { set_regs (0); d = save_context (&outer); VERIF_ASSERT ("C05.outer_saved", d == 1); push_control_stack (FRAME_FUNCTION); }
  set_regs (0);
  command_giver = OBJ (IN.cg);
  /* snapshot = machine state at the catch point */
  sp_s = sp; fp_s = fp; csp_s = csp; pc_s = pc; co_s = current_object; po_s = previous_ob; cg_s = command_giver; cp_s = current_prog;
  ct_s = caller_type; fio_s = function_index_offset; vio_s = variable_index_offset; ctx_s = current_error_context;
  d = save_context (&econ);
  VERIF_ASSERT ("C05.save_reports_depth", d == 1 + IN.depth0);
  /* legal evolution: frames pushed after save_context (registers change afterwards); with no frame pushed (an efun
     failing directly under a driver-level context) the registers are still those of the catch point */
  __CPROVER_assume (IN.nframes >= 0 && IN.nframes <= NF && IN.npush >= 0 && IN.npush <= NV);
  for (i = 0; i < NF; i++)
    if (i < IN.nframes)
      {
        int k = IN.fkind[i];
        __CPROVER_assume (k == FRAME_FUNCTION || k == FRAME_FUNP || k == FRAME_CATCH || k == FRAME_FAKE || k == (FRAME_FUNCTION | FRAME_OB_CHANGE) || k == (FRAME_FUNCTION | FRAME_EXTERNAL));
        push_control_stack (k);
        set_regs (6);
        if (i == 0 && IN.nested) { d = save_context (&inner); VERIF_ASSERT ("C05.nested_saved", d == 2 + IN.depth0); }
      }
  for (i = 0; i < NV; i++)
    if (i < IN.npush)
      switch (IN.vkind[i] & 3)
        {
        case 0: push_number (IN.vnum[i]); break;
        case 1: copy_and_push_string ("ab"); break;
        case 2: push_array (&ARR); break;
        default: sp++; sp->type = T_ERROR_HANDLER; sp->subtype = 0; sp->u.error_handler = the_handler; break;
        }
  command_giver = OBJ (IN.cg + 1);
  /* the error lands here: (longjmp) -> restore_context; pop_context */
  {
    int handlers = 0, arrs = 0;
    for (i = 0; i < NV; i++) if (i < IN.npush) { if ((IN.vkind[i] & 3) == 3) handlers++; if ((IN.vkind[i] & 3) == 2) arrs++; }
    VERIF_ASSERT ("C05.array_ref_counts_holders", ARR.ref == 1 + arrs);
    restore_context (&econ);
    pop_context (&econ);
    VERIF_ASSERT ("C05.value_stack_restored", sp == sp_s);
    VERIF_ASSERT ("C05.call_stack_restored", csp == csp_s);
    VERIF_ASSERT ("C05.registers_restored", fp == fp_s && pc == pc_s && current_object == co_s && previous_ob == po_s && current_prog == cp_s
                  && caller_type == ct_s && function_index_offset == fio_s && variable_index_offset == vio_s);
    VERIF_ASSERT ("C05.command_giver_restored", command_giver == cg_s);
    VERIF_ASSERT ("C05.handler_chain_restored", current_error_context == ctx_s);
    VERIF_ASSERT ("C05.pushed_values_released_once", ARR.ref == 1);
    VERIF_ASSERT ("C05.error_handlers_ran_once", handler_runs == handlers);
    VERIF_ASSERT ("C05.error_state_cleared", get_error_state (ES_STACK_FULL | ES_MAX_EVAL_COST) == 0);
    if (handlers >= 1 && arrs >= 1) VERIF_WITNESS ("handler_and_array");
    if (IN.nframes == NF) VERIF_WITNESS ("three_frames");
    if (IN.nested) VERIF_WITNESS ("nested_context");
  }
  VERIF_WITNESS ("end");
}
