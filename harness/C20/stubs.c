#include "all_types.h"
#include "verif.h"
/* reference release of an object that keeps other holders (the harness objects start with ref 5) */
void free_object (object_t *ob, const char *why) { (void) why; ob->ref--; VERIF_ASSERT ("C20.object_not_over_released", ob->ref >= 1); }
