/* C20: uid/euid transitions.  Real: lib/efuns/uids.c f_seteuid, f_export_uid (via #include), src/stack.c, lib/lpc/svalue.c.
 * State: three objects with symbolic uid/euid from a 3-element uid alphabet (or NULL euid); every writer runs for real.
 */
#include "lib/efuns/uids.c"
#include "verif.h"
#define IN_FIELDS(S,A) A(int, uid, 3) A(int, euid, 3) S(int, argkind) S(int64_t, num) S(int, mret) S(int64_t, mnum) S(int, target)
#include "verif_in.h"
void vm_world_init (void);
void verif_on_error (void);
static userid_t UA = { "a" }, UB = { "b" }, UC = { "c" };
static userid_t *UID (int i) { switch (i) { case 1: return &UA; case 2: return &UB; case 3: return &UC; default: return 0; } }
static object_t O0, O1, O2;
static object_t *OP (int i) { switch (i) { case 0: return &O0; case 1: return &O1; default: return &O2; } }
static svalue_t mret_sv; static int master_asked, add_uid_calls;
static userid_t *uid0[3], *euid0[3];
static int errored;

svalue_t *apply_master_ob (const char *fun, int n)
{
  (void) fun;
  master_asked++;
  pop_n_elems (n);
  switch (IN.mret)
    {
    case 0: return 0;                              /* master has no such function / returned nothing */
    case 1: return (svalue_t *) -1;                /* no master object */
    case 2: mret_sv.type = T_NUMBER; mret_sv.subtype = 0; mret_sv.u.number = IN.mnum; return &mret_sv;
    default: mret_sv.type = T_STRING; mret_sv.subtype = STRING_CONSTANT; mret_sv.u.string = "yes"; return &mret_sv;
    }
}
static void check_frame (int who, const char *what)
{
  int i;
  (void) what;
  for (i = 0; i < 3; i++)
    {
      if (i != who) VERIF_ASSERT ("C20.other_objects_untouched", OP (i)->uid == uid0[i] && OP (i)->euid == euid0[i]);
    }
}
void verif_on_error (void)
{
  errored = 1;
  /* an LPC error must not have changed any uid/euid */
  VERIF_ASSERT ("C20.error_leaves_uids", O0.uid == uid0[0] && O0.euid == euid0[0] && O1.uid == uid0[1] && O1.euid == euid0[1] && O2.uid == uid0[2] && O2.euid == euid0[2]);
  VERIF_WITNESS ("lpc_error");
}

void harness (void)
{
  int i, approved;
  verif_in_init ();
  vm_world_init ();
  init_strings (4, 100);                 /* real shared-string table, 4 buckets */
  for (i = 0; i < 3; i++)
    {
      __CPROVER_assume (IN.uid[i] >= 1 && IN.uid[i] <= 3 && IN.euid[i] >= 0 && IN.euid[i] <= 3);
      OP (i)->uid = uid0[i] = UID (IN.uid[i]); OP (i)->euid = euid0[i] = UID (IN.euid[i]); OP (i)->ref = 5; OP (i)->flags = 0; OP (i)->name = "o";
    }
  __CPROVER_assume (IN.mret >= 0 && IN.mret <= 3);
  current_object = &O0;
#ifdef MODE_SETEUID
  if (IN.argkind == 0) push_number (IN.num); else copy_and_push_string ("x");
  f_seteuid ();
  approved = (IN.mret == 1) || (IN.mret == 3) || (IN.mret == 2 && IN.mnum != 0);
  VERIF_ASSERT ("C20.seteuid.uid_never_changes", O0.uid == uid0[0]);
  if (IN.argkind == 0)
    {
      VERIF_ASSERT ("C20.seteuid.zero_clears_euid_without_master", IN.num == 0 && O0.euid == 0 && master_asked == 0 && sp->type == T_NUMBER && sp->u.number == 1);
      VERIF_WITNESS ("seteuid_0");
    }
  else
    {
      VERIF_ASSERT ("C20.seteuid.master_is_asked_once", master_asked == 1);
      if (approved) { VERIF_ASSERT ("C20.seteuid.approved_sets_requested_euid", O0.euid != 0 && O0.euid != &UA && O0.euid != &UB && O0.euid != &UC && O0.euid->name[0] == 'x' && O0.euid->name[1] == 0 && sp->type == T_NUMBER && sp->u.number == 1); VERIF_WITNESS ("approved"); }
      else { VERIF_ASSERT ("C20.seteuid.not_approved_leaves_euid", O0.euid == euid0[0] && sp->type == T_NUMBER && sp->u.number == 0); VERIF_WITNESS ("denied"); }
    }
  check_frame (0, "seteuid");
  VERIF_ASSERT ("C20.seteuid.stack_balanced", sp == start_of_stack);
#endif
#ifdef MODE_EXPORT
  __CPROVER_assume (IN.target == 1 || IN.target == 2);
  push_object (OP (IN.target));
  f_export_uid ();
  VERIF_ASSERT ("C20.export.only_from_nonzero_euid", euid0[0] != 0);      /* otherwise an LPC error was raised */
  if (euid0[IN.target] == 0)
    { VERIF_ASSERT ("C20.export.sets_target_uid_to_exporter_euid", OP (IN.target)->uid == euid0[0] && OP (IN.target)->euid == 0 && sp->u.number == 1); VERIF_WITNESS ("exported"); }
  else
    { VERIF_ASSERT ("C20.export.refused_when_target_has_euid", OP (IN.target)->uid == uid0[IN.target] && OP (IN.target)->euid == euid0[IN.target] && sp->u.number == 0); VERIF_WITNESS ("refused"); }
  VERIF_ASSERT ("C20.export.exporter_unchanged", O0.uid == uid0[0] && O0.euid == euid0[0]);
  check_frame (IN.target, "export");
  VERIF_ASSERT ("C20.export.ref_released", OP (IN.target)->ref == 5);
#endif
  VERIF_WITNESS ("end");
}
