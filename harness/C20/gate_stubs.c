#include "all_types.h"
#include "verif.h"
#include <sys/stat.h>
extern int gate_should_block, gate_loaded; extern object_t *gate_blue;
/* what happens after the gate is not the subject: the path ends at the first object-creating / blueprint-fetching call */
static void created (const char *what) { (void) what; VERIF_ASSERT ("C20.gate.no_object_creation_without_euid", !gate_should_block); VERIF_WITNESS ("gate_passed"); VERIF_END_PATH (); }
object_t *lookup_object_hash (const char *s) { (void) s; created ("lookup blueprint"); return gate_loaded ? gate_blue : 0; }
object_t *get_empty_object (int n) { (void) n; created ("get_empty_object"); VERIF_END_PATH (); return 0; }
int stat (const char *p, struct stat *st) { (void) p; (void) st; created ("stat source"); VERIF_END_PATH (); return -1; }
int object_visible (object_t *o) { (void) o; return 1; }
