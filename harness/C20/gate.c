/* C20: an object whose euid is 0 (other than the master) can never load or clone an object.
 * Real: src/simulate.c clone_object / load_object / find_or_load_object up to the first object-creating call.
 * Every function that creates or fetches a blueprint is a stub asserting that the gate was passed legitimately. */
#include "all_types.h"
#include "efuns/uids.h"
#include "verif.h"
#define IN_FIELDS(S,A) S(int, euid_set) S(int, is_master) S(int, state) S(int, loaded) S(int, which)
#include "verif_in.h"
void vm_world_init (void);
static object_t CALLER, MASTER, BLUE; object_t *gate_blue; static userid_t UA = { "a" };
extern object_t *master_ob;
int gate_should_block, gate_loaded;
int get_machine_state (void) { return IN.state; }
void verif_on_error (void) { VERIF_WITNESS ("refused_with_lpc_error"); }
void harness (void)
{
  verif_in_init ();
  vm_world_init ();
  CONFIG_INT (__INHERIT_CHAIN_SIZE__) = 30;
  __CPROVER_assume (IN.state >= MS_MUDLIB_LIMBO && IN.state <= MS_MUDLIB_INTERACTIVE);
  CALLER.uid = &UA; CALLER.euid = IN.euid_set ? &UA : 0; CALLER.name = "caller"; MASTER.uid = MASTER.euid = &UA; MASTER.name = "master";
  BLUE.name = "blue"; BLUE.flags = 0; BLUE.ref = 1; BLUE.uid = &UA;
  master_ob = &MASTER;
  current_object = IN.is_master ? &MASTER : &CALLER;
  gate_should_block = !IN.is_master && !IN.euid_set; gate_loaded = IN.loaded; gate_blue = &BLUE;
  if (gate_should_block) VERIF_WITNESS ("euid_0_caller");
#if WHICH == 0
  clone_object ("blue", 0);
#else
  load_object ("blue", 0);
#endif
  VERIF_ASSERT ("C20.gate.returns_only_when_allowed", !gate_should_block);
  VERIF_WITNESS ("end");
}
