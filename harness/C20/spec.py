BASE = ['@world/world_base.c', '@world/libc_models.c', '@world/vm_world.c', '@world/world_err.c', '@harness/C05/stubs.c', '@harness/C20/stubs.c']
def jobs(tier, ctx):
    out = []
    for (mode, nm, tg) in (('MODE_SETEUID', 'seteuid', 'f_seteuid'), ('MODE_EXPORT', 'export_uid', 'f_export_uid')):
        out.append(dict(name='uid_step.' + nm, srcs=['@harness/C20/uid_steps.c', 'lib/misc/avltree.c', 'src/stack.c', 'lib/lpc/svalue.c', 'src/stralloc.c', 'src/frame.c', 'lib/misc/hash.c'], stubs=BASE, defs=[mode + '=1'], unwind=6,
                        targets=[tg], timeout=300, mem_gb=6, nobody_ok=['*'], opt_witness=['lpc_error', 'seteuid_0', 'approved', 'denied', 'exported', 'refused', 'end'],
                        desc=nm + ': from any uid/euid assignment of 3 objects, with the master answering anything: euid changes only as approved (or to 0), uid only by export from a non-zero euid onto a zero-euid object; nobody else changes',
                        inputs='uids/euids of 3 objects, argument kind/value, master answer', assumptions=['master apply returns any of: nothing, no master, number, string']))
    for which, nm in ((0, 'clone_object'), (1, 'load_object')):
        out.append(dict(name='gate.' + nm, srcs=['@harness/C20/gate.c', 'src/simulate.c', 'lib/lpc/otable.c', 'src/stack.c', 'lib/lpc/svalue.c', 'src/stralloc.c', 'src/frame.c', 'lib/misc/hash.c'], stubs=BASE + ['@harness/C20/gate_stubs.c'], defs=['WHICH=%d' % which], unwind=6,
                        cuts=['lookup_object_hash', 'get_empty_object', 'object_visible'], targets=[nm], timeout=300, mem_gb=8, unwindset=['strncpy.0:4100', 'strncat.0:4100', 'strlen.0:12', 'strip_name.0:12', 'memset.0:5000'], nobody_ok=['*'], opt_witness=['end'],
                        desc=nm + ' called by an object with/without euid, master or not, any mudlib state: no blueprint lookup, file access or object allocation happens when the caller has euid 0 and is not the master',
                        inputs='caller euid set?, caller is master?, machine state, blueprint already loaded?', assumptions=['everything after the gate is replaced by stubs that assert the gate decision']))
    return out
