#include <config.h>
#include "std.h"
#include "lpc/object.h"
#include "verif.h"
#include <time.h>
time_t time (time_t *t) { static time_t now = 1000; now += 1; if (t) *t = now; return now; }
void call_out (void) { VERIF_UNREACHABLE ("call_out"); }
int64_t get_config_int (int k) { (void) k; return 1000000; }
#ifdef VERIF_CBMC
/* table growth (CALLOCATE/RESIZE of heart_beats) is cut: the table has room for every object of the universe */
void *calloc (size_t n, size_t m) { (void) n; (void) m; VERIF_UNREACHABLE ("heart_beats table growth (calloc)"); return 0; }
void *realloc (void *p, size_t n) { (void) p; (void) n; VERIF_UNREACHABLE ("heart_beats table growth (realloc)"); return 0; }
#endif
