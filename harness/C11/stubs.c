#include <config.h>
#include "std.h"
#include "lpc/object.h"
#include "verif.h"
#include <time.h>
time_t time (time_t *t) { static time_t now = 1000; now += 1; if (t) *t = now; return now; }
/* the other periodic tasks of the tick (C09): while they run no heart beat is in progress, so that an error raised by a
   call_out, reset() or clean_up() cannot switch off the heart beat of the object that happened to beat last */
extern object_t *current_heart_beat;
int verif_other_tasks_ran;
void call_out (void) { verif_other_tasks_ran++; VERIF_ASSERT ("C09.no_heart_beat_in_progress_while_call_outs_run", current_heart_beat == 0); }
void look_for_objects_to_swap (void) { verif_other_tasks_ran++; VERIF_ASSERT ("C09.no_heart_beat_in_progress_while_reset_and_clean_up_run", current_heart_beat == 0); }
int64_t get_config_int (int k) { (void) k; return 1000000; }
#ifdef VERIF_CBMC
/* table growth (CALLOCATE/RESIZE of heart_beats) is cut: the table has room for every object of the universe */
void *calloc (size_t n, size_t m) { (void) n; (void) m; VERIF_UNREACHABLE ("heart_beats table growth (calloc)"); return 0; }
void *realloc (void *p, size_t n) { (void) p; (void) n; VERIF_UNREACHABLE ("heart_beats table growth (realloc)"); return 0; }
#endif
