BASE = ['@world/world_base.c', '@world/libc_models.c', '@harness/C11/stubs.c']
CUT = ['look_for_objects_to_swap', 'backend', 'preload_objects', 'init_console_user', 'mudlib_connect', 'mudlib_logon', 'heart_beat_status', 'get_heart_beats', 'clear_state', 'update_load_av', 'update_compile_av', 'query_load_av']
def jobs(tier, ctx):
    out = []
    def C(no, ns):
        return [(no, n, f, a, t) for n in ns for f in (0, 1) for a in range(0, 7) for t in (range(no) if a in (2, 3, 6) else [0]) if f < n and not (a in (2, 6) and t == f)]
    combos = C(2, [1, 2]) + ([] if tier == 'quick' else C(3, [2, 3]))
    for (no, n, f, a, t) in combos:
        out.append(dict(name='hb_round.o%d.n%d.first%d.act%d.t%d' % (no, n, f, a, t), srcs=['@harness/C11/hb_round.c'], stubs=BASE, defs=['NO=%d' % no, 'NFIX=%d' % n, 'FIRST=%d' % f, 'ACT=%d' % a, 'TGT=%d' % t], unwind=5, cuts=CUT, nobody_ok=CUT + ['g_main_options'],
                        targets=['call_heart_beat', 'set_heart_beat'], timeout=900, mem_gb=14 if no == 3 else 8, opt_witness=['two_calls', 'earlier_entry_removed_then_later_called', 'flag_stops_round'] + (['end'] if a == 4 else ['error_in_heart_beat']),
                        desc='one heart-beat round over %d enabled objects (of %d); the first heart_beat called (object %d) performs action %d (0 none,1 disable self,2 disable other,3 set interval/enable,4 error,5 timer flag,6 enable-then-disable other) on target object %d: lock-step reference scheduler' % (n, no, f, a, t),
                        inputs='countdowns, intervals, which objects define heart_beat, action/target/argument of each callback',
                        assumptions=['reset/swap scan and call_out part of the tick are cut (timer_flags = HEARTBEAT only)', 'table capacity 4 (3 objects): the chunk growth path is not exercised',
                                     'an uncaught error is modelled by the heart-beat clause of error_handler() followed by the end of the round (longjmp to backend)']))
    return out
