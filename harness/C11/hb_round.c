/* C11: one heart-beat round with REAL re-entrant set_heart_beat calls (DESIGN 5/C11).
 * Real: src/backend.c call_heart_beat (heart-beat part), set_heart_beat, query_heart_beat (via #include).
 * Universe: 3 objects (separate statics) in a table of capacity 4 (the HEART_BEAT_CHUNK growth path is not
 * exercised), countdowns/intervals symbolic in [1,3].  Each heart_beat callback performs <= 1 scripted action:
 * disable self / disable another / set another's interval / enable a disabled object / raise an error /
 * the timer sets heart_beat_flag.  Oracle: lock-step reference written from the statement.
 */
#define memmove verif_hb_memmove
#include "src/backend.c"
#undef memmove
#include "verif.h"
#ifndef NO
#define NO 3
#endif
#ifndef NCALL
#define NCALL 2
#endif
#define IN_FIELDS(S,A) S(int, n) A(int, ticks, NO) A(int, interval, NO) A(int, has_fn, NO) A(int, act, NCALL) A(int, tgt, NCALL) A(int, arg, NCALL)
#include "verif_in.h"

/* typed element-wise model (forward copy, as memmove for dst < src) */
void *verif_hb_memmove (void *d, const void *s, size_t n)
{
  heart_beat_t *dd = (heart_beat_t *) d; const heart_beat_t *ss = (const heart_beat_t *) s; size_t i, k = n / sizeof (heart_beat_t);
  for (i = 0; i < NO + 1; i++) if (i < k) dd[i] = ss[i];
  return d;
}

static object_t H0, H1, H2; static program_t PR0, PR1, PR2;
static object_t *HP (int i) { switch (i) { case 0: return &H0;
#if NO > 2
 case 1: return &H1; default: return &H2;
#else
 default: return &H1;
#endif
 } }
static program_t *PP (int i) { switch (i) { case 0: return &PR0;
#if NO > 2
 case 1: return &PR1; default: return &PR2;
#else
 default: return &PR1;
#endif
 } }
static int idx_of (object_t *o) { if (o == &H0) return 0; if (o == &H1) return 1; if (NO > 2 && o == &H2) return 2; return -1; }

/* ghost / reference state */
static int calls[NO], ncalls, seq[NCALL + 2];
static int touched[NO];          /* set_heart_beat(x, n>0) or enable issued on x during the round */
static int disabled_at[NO];      /* call index at which x was disabled in this round, -1 if not */
static int errored, flagged, error_obj = -1;
static int en0[NO], tk0[NO], iv0[NO];

static int table_inv (void)
{
  int i, j;
  if (num_hb_objs < 0 || num_hb_objs > NO) return 0;
  for (i = 0; i < NO; i++)
    if (i < num_hb_objs)
      {
        if (idx_of (heart_beats[i].ob) < 0) return 0;
        if (!(heart_beats[i].ob->flags & O_HEART_BEAT)) return 0;
        for (j = 0; j < NO; j++) if (j < i && heart_beats[j].ob == heart_beats[i].ob) return 0;
      }
  for (i = 0; i < NO; i++)
    {
      int in = 0;
      for (j = 0; j < NO; j++) if (j < num_hb_objs && heart_beats[j].ob == HP (i)) in = 1;
      if (!!(HP (i)->flags & O_HEART_BEAT) != in) return 0;
    }
  return 1;
}

static void post_checks (void);
/* the LPC heart_beat function of the object being called */
void call_function (program_t *prog, int idx, int nargs, svalue_t *ret)
{
  int me = idx_of (current_heart_beat), k = ncalls, t;
  if (ncalls == 0) { VERIF_ASSERT ("C11.first_due_object_called_first", me == FIRST); me = FIRST; }
  (void) prog; (void) idx; (void) nargs; (void) ret;
  VERIF_ASSERT ("C11.called_object_is_enabled_and_has_heart_beat", me >= 0 && (HP (me)->flags & O_HEART_BEAT) && IN.has_fn[me]);
  if (me < 0) return;
  VERIF_ASSERT ("C11.at_most_once_per_tick", calls[me] == 0);
  VERIF_ASSERT ("C11.not_called_after_disable_or_destruct", disabled_at[me] < 0);
  calls[me]++; if (ncalls < NCALL + 2) seq[ncalls] = me; ncalls++;
  if (k >= 1) return;               /* only the first callback of the round acts; its action kind is concrete per run */
  __CPROVER_assume (IN.act[0] == ACT); IN.act[0] = ACT;
  __CPROVER_assume (IN.tgt[0] == TGT); IN.tgt[0] = TGT;     /* target object concrete per run */
  t = TGT;
  switch (IN.act[k])
    {
    case 1: set_heart_beat (HP (me), 0); disabled_at[me] = k; break;                                   /* disable / destruct self */
    case 2: if (t != me && (HP (t)->flags & O_HEART_BEAT)) { set_heart_beat (HP (t), 0); disabled_at[t] = k; } break;   /* disable another */
    case 3: __CPROVER_assume (IN.arg[k] >= 1 && IN.arg[k] <= 3); set_heart_beat (HP (t), IN.arg[k]); touched[t] = 1; break; /* (re)set interval / enable */
    case 4:                                                                                            /* uncaught LPC error */
      errored = 1; error_obj = me;
      /* error_handler(): "if (current_heart_beat) set_heart_beat (current_heart_beat, 0); current_heart_beat = 0;" then longjmp to backend */
      set_heart_beat (current_heart_beat, 0); current_heart_beat = 0;
      post_checks ();
      VERIF_WITNESS ("error_in_heart_beat");
      VERIF_END_PATH ();
      break;
    case 5: heart_beat_flag = 1; flagged = 1; break;
    case 6:                                                                                            /* enable (or re-time) another object, then switch it off again */
      if (t != me) { set_heart_beat (HP (t), 1); set_heart_beat (HP (t), 0); touched[t] = 1; disabled_at[t] = k; }
      break;                                                   /* timer tick arrives during the round */
    default: break;
    }
}

static void post_checks (void)
{
  int i;
  VERIF_ASSERT ("C11.table_invariant", table_inv ());
  for (i = 0; i < NO; i++)
    {
      int enabled_now = !!(HP (i)->flags & O_HEART_BEAT);
      if (errored)
        {
          if (i == error_obj) VERIF_ASSERT ("C11.error_switches_off_failing_object", !enabled_now);
          else if (disabled_at[i] < 0 && !touched[i]) VERIF_ASSERT ("C11.error_leaves_other_objects_enabled_state", enabled_now == en0[i]);
        }
      /* determinate cases of the reference scheduler: enabled at tick start, never touched by set_heart_beat(x,n)
         nor disabled during the round, round completed */
      if (!errored && !flagged && en0[i] && !touched[i] && disabled_at[i] < 0)
        {
          int due = IN.has_fn[i] && (tk0[i] - 1 < 1);
          VERIF_ASSERT ("C11.exactly_once_when_due_in_completed_tick", calls[i] == (due ? 1 : 0));
          VERIF_ASSERT ("C11.still_enabled", enabled_now && query_heart_beat (HP (i)) == iv0[i]);
          {
            int j, tk = -99;
            for (j = 0; j < NO; j++) if (j < num_hb_objs && heart_beats[j].ob == HP (i)) tk = heart_beats[j].heart_beat_ticks;
            VERIF_ASSERT ("C11.countdown_follows_interval", tk == (due ? iv0[i] : tk0[i] - 1));
          }
        }
      if (!en0[i] && !touched[i]) VERIF_ASSERT ("C11.never_enabled_object_not_called", calls[i] == 0);
    }
}

void harness (void)
{
  int i;
  static main_options_t opts;
  verif_in_init ();
  g_main_options = &opts; opts.timer_flags = TIMER_FLAG_HEARTBEAT | TIMER_FLAG_RESET | TIMER_FLAG_CALLOUT;   /* all periodic tasks on (stubs.c) */
  __CPROVER_assume (IN.n == NFIX);
  IN.n = NFIX;
  /* the first object called in the round is concrete per run (FIRST): the earlier entries are not due or have no function */
  __CPROVER_assume (IN.has_fn[FIRST] == 1 && IN.ticks[FIRST] == 1);
  IN.has_fn[FIRST] = 1; IN.ticks[FIRST] = 1;
#if FIRST == 1
  __CPROVER_assume (IN.has_fn[0] == 0); IN.has_fn[0] = 0;
#endif
  { static heart_beat_t table[NO + 1]; heart_beats = table; }
  max_heart_beats = NO + 1; num_hb_objs = IN.n;
  for (i = 0; i < NO; i++)
    {
      __CPROVER_assume (IN.interval[i] >= 1 && IN.interval[i] <= 3 && IN.ticks[i] >= 1 && IN.ticks[i] <= IN.interval[i]);
      __CPROVER_assume (IN.has_fn[i] == 0 || IN.has_fn[i] == 1);
      HP (i)->prog = PP (i); PP (i)->heart_beat = IN.has_fn[i] ? 0 : -1; HP (i)->flags = 0; HP (i)->name = "o";
      disabled_at[i] = -1;
      en0[i] = i < IN.n; tk0[i] = IN.ticks[i]; iv0[i] = IN.interval[i];
      if (i < IN.n)
        { heart_beats[i].ob = HP (i); heart_beats[i].heart_beat_ticks = (short) IN.ticks[i]; heart_beats[i].time_to_heart_beat = (short) IN.interval[i]; HP (i)->flags |= O_HEART_BEAT; }
    }
  call_heart_beat ();
  post_checks ();
  /* calls happen in table order */
  for (i = 0; i + 1 < NCALL + 2; i++) if (i + 1 < ncalls) VERIF_ASSERT ("C11.called_in_table_order", seq[i] < seq[i + 1] || touched[seq[i + 1]] || touched[seq[i]]);
  VERIF_ASSERT ("C11.round_state_reset", num_hb_to_do == 0 && heart_beat_index == 0 && current_heart_beat == 0);
  if (ncalls >= 2) VERIF_WITNESS ("two_calls");
  if (ncalls >= 1 && disabled_at[0] >= 0 && ncalls >= 2) VERIF_WITNESS ("earlier_entry_removed_then_later_called");
  if (flagged) VERIF_WITNESS ("flag_stops_round");
  VERIF_WITNESS ("end");
}
