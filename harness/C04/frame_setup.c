/* C04: value-stack limit at function entry.  Real: src/frame.c setup_variables / setup_varargs_variables,
 * src/stack.c push_undefineds / pop_n_elems.  From a stack filled up to DEPTH slots below the end, with any number of
 * actual/declared arguments and locals: either the stack-overflow error is raised (ES_STACK_FULL set) or the frame
 * fits below end_of_stack -- on every path, also the "too many arguments" one.
 */
#include "all_types.h"
#include "verif.h"
#define IN_FIELDS(S,A) S(int, actual) S(int, local) S(int, num_arg) S(int, varargs)
#include "verif_in.h"
void vm_world_init (void);
static int errored;
void verif_on_error (void)
{
  errored = 1;
  VERIF_ASSERT ("C04.frame.overflow_error_sets_uncatchable_flag", get_error_state (ES_STACK_FULL));
  VERIF_ASSERT ("C04.frame.sp_still_inside_on_error", sp < end_of_stack + 5);
  VERIF_WITNESS ("stack_overflow_raised");
}
void harness (void)
{
  int i;
  verif_in_init ();
  vm_world_init ();
  CONFIG_INT (__MAX_ARRAY_SIZE__) = 100;
  __CPROVER_assume (IN.actual == ACTUAL); IN.actual = ACTUAL;                  /* concrete: keeps sp concrete */
  /* declared arguments and locals are concrete per run as well: a symbolic count makes sp a symbolic pointer into the
     stack and no verdict is reached (rule 9); the grid of cases is enumerated by the driver */
  __CPROVER_assume (IN.num_arg == NUMARG && IN.local == NLOCAL); IN.num_arg = NUMARG; IN.local = NLOCAL;
  push_control_stack (FRAME_FUNCTION);
  /* the caller has filled the stack up to DEPTH slots below end_of_stack, the last ACTUAL of them are the arguments */
  for (i = 0; start_of_stack + i < end_of_stack - DEPTH; i++) push_number (i);
  if (VARARGS) { __CPROVER_assume (IN.num_arg >= 1); setup_varargs_variables (IN.actual, IN.local, IN.num_arg); }
  else setup_variables (IN.actual, IN.local, IN.num_arg);
  VERIF_ASSERT ("C04.frame.fits_below_end_of_stack", sp < end_of_stack);
  VERIF_ASSERT ("C04.frame.locals_inside_stack", fp >= start_of_stack && fp + csp->num_local_variables - 1 == sp);
  VERIF_WITNESS ("frame_set_up");
}
