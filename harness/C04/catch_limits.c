/* C04(2): an evaluation-limit error cannot be swallowed by catch.  Real: src/frame.c do_catch, push_control_stack;
 * src/error_context.c save_context / restore_context / pop_context; src/stack.c; lib/lpc/svalue.c.
 * setjmp is modelled by a stub: it returns 0 (the guarded code runs: eval_instruction stub) or 1 (an error was raised
 * inside the catch: the callee has pushed frames/values and the error state bits are as chosen by the solver).
 */
#include "src/error_context.c"
#include "verif.h"
#define IN_FIELDS(S,A) S(int, jmp) S(int, bits) S(int, nframes) S(int, npush)
#include "verif_in.h"
void vm_world_init (void);
static int reraised, evals; static error_context_t *ctx0; static svalue_t *sp0; static control_stack_t *csp0;
void eval_instruction (const char *p) { (void) p; evals++; }
int _setjmp (struct __jmp_buf_tag env[1])
{
  int i;
  (void) env;
  if (!IN.jmp) return 0;
  /* the guarded code ran and raised an error: what it left behind */
  for (i = 0; i < 2; i++) if (i < IN.nframes) push_control_stack (FRAME_FUNCTION);
  for (i = 0; i < 2; i++) if (i < IN.npush) push_number (7);
  if (IN.bits & 1) set_error_state (ES_STACK_FULL);
  if (IN.bits & 2) set_error_state (ES_MAX_EVAL_COST);
  free_svalue (&catch_value, "harness"); catch_value.type = T_STRING; catch_value.subtype = STRING_MALLOC; catch_value.u.string = string_copy ("*boom", "harness");
  return 1;
}
void verif_on_error (void)
{
  reraised = 1;
  VERIF_ASSERT ("C04.catch.reraises_only_limit_errors", IN.jmp && (IN.bits & 3) != 0);
  VERIF_ASSERT ("C04.catch.context_popped_once_before_reraise", current_error_context == ctx0);
  VERIF_ASSERT ("C04.catch.stacks_restored_before_reraise", csp == csp0 && sp == sp0 + 1);
  VERIF_WITNESS ("limit_error_reraised");
}
void harness (void)
{
  static char code[4];
  verif_in_init ();
  vm_world_init ();
  init_strings (4, 100);
  /* concrete per run: keeps sp/csp concrete pointers */
  __CPROVER_assume (IN.jmp == JMP && IN.bits == BITS && IN.nframes == NFR && IN.npush == NPU);
  IN.jmp = JMP; IN.bits = BITS; IN.nframes = NFR; IN.npush = NPU;
  push_control_stack (FRAME_FUNCTION);          /* the function containing the catch */
  push_number (1);
  ctx0 = current_error_context; sp0 = sp; csp0 = csp;
  do_catch (code, 0);
  VERIF_ASSERT ("C04.catch.limit_error_not_swallowed", !(IN.jmp && (IN.bits & 3)));
  VERIF_ASSERT ("C04.catch.context_popped_once", current_error_context == ctx0);
  if (IN.jmp)
    {
      VERIF_ASSERT ("C04.catch.yields_thrown_value", sp == sp0 + 1 && sp->type == T_STRING && csp == csp0);
      VERIF_WITNESS ("ordinary_error_caught");
    }
  else VERIF_ASSERT ("C04.catch.body_evaluated_once", evals == 1 && csp == csp0 + 1);
  VERIF_WITNESS ("end");
}
