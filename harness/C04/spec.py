import os, importlib.util
_sp = importlib.util.spec_from_file_location('vmjobs', os.path.join(os.path.dirname(os.path.abspath(__file__)), '..', 'vm', 'vmjobs.py'))
vm = importlib.util.module_from_spec(_sp); _sp.loader.exec_module(vm)

def jobs(tier, ctx):
    out = []
    def add(*a, **k):
        j = vm.step_job(ctx, 'limit', *a, **k)
        if j: out.append(j)
    # size limits: after the step every value on the stack respects the configured maximum (limits symbolic in [1, 2*CAP])
    for (a, b) in (('STR', 'STR'), ('STR', 'NUM'), ('NUM', 'STR'), ('BUF', 'BUF')):
        add('F_ADD', [a, b], oracle=['LIMIT'])
    # arrays: lengths concrete per run (a symbolic allocation size exhausts the solver), limits symbolic
    for (l0, l1) in ((2, 2), (1, 3)):
        add('F_ADD', ['ARRM', 'ARRM'], oracle=['LIMIT'], extra_defs=['LENK0=%d' % l0, 'LENK1=%d' % l1], tag='len%d_%d' % (l0, l1), mem=12, typed_arrays=8)
    # x += x on an array with exactly two references (the in-place doubling path of add_array)
    for l0 in ((1, 2) if tier == 'quick' else (1, 2, 3)):
        add('F_ADD_EQ', ['ARRM', 'LVSELF'], oracle=['LIMIT'], extra_defs=['LENK0=%d' % l0], tag='self.len%d' % l0, mem=12, typed_arrays=8, unwind=(10 if l0 >= 3 else None))
    for (jm, bits, nfr, npu) in [(0, 0, 0, 0)] + [(1, b, f, f) for b in range(4) for f in (0, 2)]:
      out.append(dict(name='catch_limits.j%d_b%d_f%d' % (jm, bits, nfr), defs=['JMP=%d' % jm, 'BITS=%d' % bits, 'NFR=%d' % nfr, 'NPU=%d' % npu], srcs=['@harness/C04/catch_limits.c', 'src/frame.c', 'src/stack.c', 'lib/lpc/svalue.c', 'src/stralloc.c', 'lib/misc/hash.c'],
                    stubs=['@world/world_base.c', '@world/libc_models.c', '@world/vm_world.c', '@world/world_err.c', '@harness/C05/stubs.c'],
                    cuts=['error', 'error_handler', 'bad_arg', 'bad_argument', 'throw_error', 'mudlib_error_handler', 'debug_message_with_location'], unwind=6,
                    targets=['do_catch', 'restore_context', 'pop_context'], unwindset=['strncpy.0:12', 'strlen.0:12', 'strcpy.0:12'], timeout=300, mem_gb=6, opt_witness=['limit_error_reraised', 'ordinary_error_caught', 'end'],
                    desc='real do_catch with both setjmp branches; on the error branch the callee left 0..2 frames, 0..2 values and any combination of ES_STACK_FULL / ES_MAX_EVAL_COST: a limit error is re-raised (never swallowed), the context is popped exactly once, an ordinary error yields the thrown value',
                    inputs='branch, error-state bits, frames and values left by the callee', assumptions=['setjmp/longjmp modelled by a stub returning 0 or 1 after performing the callee partial effects']))
    grid = [(va, actual, narg, nloc, depth) for va in (0, 1) for actual in (0, 3) for narg in (1, 2) for nloc in (0, 4, 9) for depth in (0, 2, 7)]
    if tier == 'quick':
        grid = [g for g in grid if g[4] in (0, 2) and g[3] in (4, 9)]
    for (va, actual, narg, nloc, depth) in grid:
            if True:
                out.append(dict(name='frame_setup.v%d_a%d_n%d_l%d_d%d' % (va, actual, narg, nloc, depth), srcs=['@harness/C04/frame_setup.c', 'src/frame.c', 'src/stack.c', 'lib/lpc/svalue.c', 'src/stralloc.c', 'lib/misc/hash.c', 'lib/lpc/array.c'],
                                stubs=['@world/world_base.c', '@world/libc_models.c', '@world/vm_world.c', '@world/world_err.c', '@harness/vm/stubs.c'], defs=['VARARGS=%d' % va, 'ACTUAL=%d' % actual, 'DEPTH=%d' % depth, 'NUMARG=%d' % narg, 'NLOCAL=%d' % nloc],
                                cuts=['do_catch', 'dealloc_mapping', 'dealloc_class', 'dealloc_funp', 'free_mapping', 'free_class'], unwind=30, unwindset=['free_svalue:2', 'dealloc_array:2'], targets=['setup_variables' if not va else 'setup_varargs_variables', 'push_undefineds'], timeout=300, mem_gb=6,
                                opt_witness=['stack_overflow_raised', 'frame_set_up'],
                                desc='function entry with %d actual / %d declared arguments and %d locals, stack filled to %d slots below the end, %s: overflow error or the frame fits (case enumeration; the solver discharges the memory checks)' % (actual, narg, nloc, depth, 'varargs' if va else 'fixed args'),
                                inputs='declared arguments, locals', assumptions=['value stack of 24 slots (19 usable + 5 slack) as laid out by reset_interpreter']))
    return out
