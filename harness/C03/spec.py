import os, importlib.util
_sp = importlib.util.spec_from_file_location('vmjobs', os.path.join(os.path.dirname(os.path.abspath(__file__)), '..', 'vm', 'vmjobs.py'))
vm = importlib.util.module_from_spec(_sp); _sp.loader.exec_module(vm)

def jobs(tier, ctx):
    out = []
    # (4) literal encodings: real encoder (write_long_number) -> real interpreter, all int64 values outside 0..255
    for op in ('F_NBYTE', 'F_NUMBER', 'F_LONG'):
        j = vm.step_job(ctx, 'literal', op, [], extra_defs=['GEN_LITERAL=1'], desc='integer literal: the real code generator (write_long_number) encodes any int64 v outside 0..255; when it chooses %s the real interpreter must push exactly v' % op)
        if j:
            j['srcs'] = j['srcs'] + ['lib/lpc/program/icode.c']; j['export_statics'] = True
            j['restrict_fp'] = []
            j['unwindset'] = [u for u in j['unwindset'] if not u.startswith('post_step') and not u.startswith('harness.')] + ['__CPROVER_file_local_vm_step_c_post_step.0:9', '__CPROVER_file_local_vm_step_c_post_step.1:9', 'harness.0:13', 'harness.1:13', 'harness.2:13', 'harness.3:13', 'harness.4:13']
            j['unwind'] = 6; j['mem_gb'] = 12
            out.append(j)
    # (6) index semantics of strings and buffers against the mathematical reference, all int64 indices
    for (op, rev) in (('F_INDEX', 0), ('F_RINDEX', 1)):
        for c in ('STR', 'BUF'):
            j = vm.step_job(ctx, 'indexref', op, ['NUM', c], oracle=['INDEXREF'], extra_defs=['INDEXREF_REVERSE=%d' % rev])
            if j:
                j['opt_witness'] = j['opt_witness'] + ['index_in_range', 'index_out_of_range']
                out.append(j)
        # arrays: typed blocks (DESIGN corrections 14), concrete length per run; index classes covering all of int64 (each in-range position concrete, the two out-of-range sides symbolic)
        for ln in ((2,) if tier == 'quick' else (0, 1, 2, 3)):
            # quick: every in-range position and concrete out-of-range probes (boundary, 32-bit truncation); thorough: the two
            # symbolic out-of-range classes, which together with the positions cover all of int64 (200..400 s, 11 GB each)
            probes = [('i%s' % str(k).replace('-', 'm'), ['NUMK0=%dLL' % k]) for k in (-1, ln, ln + 1, 4294967296, 4294967296 + ln - 1, -4294967296, 9223372036854775807)]
            # (the symbolic classes need up to 14 GB: thorough runs them for lengths 0 and 2 only, two at a time)
            for (tag, d) in ([c for c in vm.index_classes(ln, rev) if c[0].startswith('pos')] + probes if (tier == 'quick' or ln in (1, 3)) else vm.index_classes(ln, rev) + probes[:2]):
                j = vm.step_job(ctx, 'indexref', op, ['NUM', 'ARRM'], oracle=['INDEXREF'], extra_defs=['LENK1=%d' % ln, 'INDEXREF_REVERSE=%d' % rev] + d, tag='len%d.%s' % (ln, tag), typed_arrays=8,
                                mem=(14 if tag in ('below', 'above') else 4), timeout=(1500 if tag in ('below', 'above') else 300))
                if j:
                    j['opt_witness'] = j['opt_witness'] + ['index_in_range', 'index_out_of_range']
                    out.append(j)
    # (5) switch on integers: real f_switch binary search on tables of 1..7 (8) cases laid out as the code generator writes them
    for n in (range(1, 8) if tier == 'quick' else range(1, 9)):
        out.append(dict(name='switch_table.n%d' % n, srcs=['@harness/C03/switch_table.c', 'lib/lpc/operator.c', 'src/stack.c', 'lib/lpc/svalue.c'],
                        stubs=['@world/world_base.c', '@world/libc_models.c', '@world/vm_world.c', '@world/world_err.c', '@harness/vm/stubs.c'], defs=['NCASE=%d' % n], unwind=12, nobody_ok=['*'],
                        targets=['f_switch'], timeout=300, mem_gb=4, opt_witness=['case_taken', 'default_taken'],
                        desc='f_switch on an integer table of %d cases with any strictly ascending int64 labels and any switch value: the matching case address is taken, otherwise default' % n,
                        inputs='case labels, switch value', assumptions=['table layout as written by icode.c NODE_SWITCH_NUMBERS (no range labels, no direct-lookup table)']))
    return out
