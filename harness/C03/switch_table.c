/* C03: switch on an integer selects exactly the case whose label equals the value, else default.
 * Real: lib/lpc/operator.c f_switch (binary search over the sorted case table, incl. the fix-up for table sizes that are
 * not 2^k-1).  The table is laid out as the code generator writes it (lib/lpc/program/icode.c NODE_SWITCH_NUMBERS): type
 * byte 0xf0+floor(log2 N), shorts table/end/default, then N entries of an 8-byte key and a 2-byte address, keys ascending.
 * N is concrete per run; the keys (strictly ascending int64) and the switch value are symbolic.
 */
#include "all_types.h"
#include "verif.h"
#include "lpc/operator.h"
#ifndef NCASE
#define NCASE 3
#endif
#define IN_FIELDS(S,A) A(int64_t, key, 8) S(int64_t, val)
#include "verif_in.h"
void f_switch (void);
void vm_world_init (void);
void verif_on_error (void) { }
static char CODE[16 + 8 * 10 + 8]; static program_t PROG;
static void put_short (char *p, unsigned short v) { memcpy (p, &v, 2); }
void harness (void)
{
  int i, lg = 0, want = -1; unsigned short tab = 12, def = 7;
  verif_in_init ();
  vm_world_init ();
  for (i = 1; i < NCASE; i++) __CPROVER_assume (IN.key[i - 1] < IN.key[i]);
  while ((2 << lg) <= NCASE) lg++;
  CODE[0] = (char) (0xf0 + lg);
  put_short (CODE + 1, tab); put_short (CODE + 3, (unsigned short) (tab + NCASE * SWITCH_CASE_SIZE)); put_short (CODE + 5, def);
  /* the bytes in front of the table are the closing 'F_BRANCH <distance to the end of the table>' of the switch body (the
     search peeks at the two bytes before an entry to recognise range labels; f_switch relies on them being > 1) */
  CODE[tab - 3] = (char) F_BRANCH; put_short (CODE + tab - 2, (unsigned short) (2 + NCASE * SWITCH_CASE_SIZE));
  for (i = 0; i < NCASE; i++)
    {
      int64_t k = IN.key[i];
      memcpy (CODE + tab + i * SWITCH_CASE_SIZE, &k, 8);
      put_short (CODE + tab + i * SWITCH_CASE_SIZE + 8, (unsigned short) (100 + i));     /* distinct case addresses (> 1: no range entries) */
      if (IN.val == k) want = i;
    }
  PROG.name = "prog"; PROG.program = CODE; PROG.program_size = sizeof CODE;
  current_prog = &PROG; pc = CODE;
  push_number (IN.val);
  f_switch ();
  if (want >= 0) { VERIF_ASSERT ("C03.switch.matching_case_is_taken", pc == CODE + 100 + want); VERIF_WITNESS ("case_taken"); }
  else { VERIF_ASSERT ("C03.switch.no_match_goes_to_default", pc == CODE + def); VERIF_WITNESS ("default_taken"); }
  VERIF_ASSERT ("C03.switch.value_popped", sp == start_of_stack - 1);
  VERIF_WITNESS ("end");
}
