/* C19(2,3): async_queue one-operation contract from an arbitrary valid ring, lock discipline,
 * BLOCK_WRITER re-check after waiting.  Real: lib/async/async_queue.c (all API functions).
 * Concurrency is handled by sequentialisation (DESIGN 5/C19): every access to the ring happens under the
 * mutex (ghost `held`), and whenever the mutex is released and re-taken inside an operation
 * (platform_event_wait) other threads may have changed the ring to any other valid state.
 */
#include "lib/async/async_queue.c"
#include "verif.h"
#ifndef CAP
#define CAP 2
#endif
#define MSZ 3
#define IN_FIELDS(S,A) S(unsigned, head) S(unsigned, count) A(unsigned char, len, CAP) A(unsigned char, body, CAP * MSZ) \
  S(int, op) S(unsigned, size) A(unsigned char, msg, MSZ) S(unsigned, bufsz) A(unsigned char, other, 4)
#include "verif_in.h"

static int held, lock_errors, waits; static async_queue_t *Q;
bool platform_mutex_init (platform_mutex_t *m) { (void) m; return true; }
void platform_mutex_destroy (platform_mutex_t *m) { (void) m; }
void platform_mutex_lock (platform_mutex_t *m) { (void) m; if (held) lock_errors++; held = 1; }
void platform_mutex_unlock (platform_mutex_t *m) { (void) m; if (!held) lock_errors++; held = 0; }
bool platform_event_init (platform_event_t *e, bool manual, bool initial) { (void) e; (void) manual; (void) initial; return true; }
void platform_event_destroy (platform_event_t *e) { (void) e; }
static int not_full_set, not_empty_set;
void platform_event_set (platform_event_t *e) { if (Q && e == &Q->not_full) not_full_set++; if (Q && e == &Q->not_empty) not_empty_set++; }
void platform_event_reset (platform_event_t *e) { (void) e; }
/* while this thread waits outside the lock a consumer may take messages (k-th wait: IN.other[k] of them) */
bool platform_event_wait (platform_event_t *e, int timeout)
{
  unsigned take;
  (void) e; (void) timeout;
  VERIF_ASSERT ("C19.queue.never_waits_holding_the_lock", !held);
  __CPROVER_assume (waits < 2);
  take = IN.other[waits++];
  __CPROVER_assume (take <= Q->count);
  if (waits == 2) __CPROVER_assume (take >= 1);       /* fairness: the consumer eventually runs */
  Q->tail = (Q->tail + take) % Q->capacity; Q->count -= take;
  return true;
}

/* ghost FIFO: logical message i (0 = oldest) lives in slot (tail+i)%cap */
static unsigned g_len[CAP]; static unsigned char g_body[CAP][MSZ];
static void snapshot (unsigned skip)
{
  unsigned i, j;
  for (i = 0; i < CAP; i++)
    if (i + skip < CAP)
      {
        unsigned s = (Q->tail + i + skip) % Q->capacity;
        g_len[i] = (unsigned) *(size_t *) get_slot (Q, s);
        for (j = 0; j < MSZ; j++) g_body[i][j] = ((unsigned char *) get_slot (Q, s))[sizeof (size_t) + j];
      }
}
static int slot_equals (unsigned logical, unsigned glog)
{
  unsigned s = (Q->tail + logical) % Q->capacity, j;
  if ((unsigned) *(size_t *) get_slot (Q, s) != g_len[glog]) return 0;
  for (j = 0; j < MSZ; j++) if (j < g_len[glog] && ((unsigned char *) get_slot (Q, s))[sizeof (size_t) + j] != g_body[glog][j]) return 0;
  return 1;
}

void harness (void)
{
  unsigned i, j, c0; uint64_t e0, d0, x0;
  verif_in_init ();
  Q = async_queue_create (CAP, MSZ, (async_queue_flags_t) QFLAGS);
  __CPROVER_assume (Q != 0);
  __CPROVER_assume (IN.head < CAP && IN.count <= CAP);
  Q->head = IN.head; Q->count = IN.count; Q->tail = (IN.head + CAP - IN.count) % CAP;
  for (i = 0; i < CAP; i++)
    {
      __CPROVER_assume (IN.len[i] >= 1 && IN.len[i] <= MSZ);
      *(size_t *) get_slot (Q, i) = IN.len[i];
      for (j = 0; j < MSZ; j++) ((unsigned char *) get_slot (Q, i))[sizeof (size_t) + j] = IN.body[i * MSZ + j];
    }
  c0 = Q->count; e0 = Q->enqueue_count; d0 = Q->dequeue_count; x0 = Q->dropped_count;
  snapshot (0);
#if OP == 0      /* enqueue */
  {
    bool ok;
    __CPROVER_assume (IN.size <= MSZ + 1);
    ok = async_queue_enqueue (Q, IN.msg, IN.size);
    VERIF_ASSERT ("C19.queue.lock_balanced", !held && lock_errors == 0);
    VERIF_ASSERT ("C19.queue.ring_invariant", Q->head < CAP && Q->tail < CAP && Q->count <= CAP && Q->head == (Q->tail + Q->count) % CAP);
    if (IN.size == 0 || IN.size > MSZ) VERIF_ASSERT ("C19.queue.bad_size_rejected", !ok && Q->count == c0);
    else if (waits == 0)
      {
        if (c0 < CAP)
          {
            VERIF_ASSERT ("C19.queue.enqueue_appends", ok && Q->count == c0 + 1 && Q->enqueue_count == e0 + 1 && Q->dropped_count == x0);
            for (i = 0; i < CAP; i++) if (i < c0) VERIF_ASSERT ("C19.queue.enqueue_keeps_older_messages_in_order", slot_equals (i, i));
          }
        else if (QFLAGS & ASYNC_QUEUE_DROP_OLDEST)
          {
            VERIF_ASSERT ("C19.queue.drop_oldest_policy", ok && Q->count == CAP && Q->dropped_count == x0 + 1 && Q->enqueue_count == e0 + 1);
            for (i = 0; i + 1 < CAP; i++) VERIF_ASSERT ("C19.queue.drop_oldest_drops_only_the_oldest", slot_equals (i, i + 1));
          }
        else if (!(QFLAGS & ASYNC_QUEUE_BLOCK_WRITER))
          {
            VERIF_ASSERT ("C19.queue.full_fails_without_change", !ok && Q->count == CAP && Q->enqueue_count == e0 && Q->dropped_count == x0);
            for (i = 0; i < CAP; i++) VERIF_ASSERT ("C19.queue.full_keeps_messages", slot_equals (i, i));
          }
      }
    if (ok)
      {
        unsigned last = (Q->head + CAP - 1) % CAP;
        VERIF_ASSERT ("C19.queue.newest_is_the_message", (unsigned) *(size_t *) get_slot (Q, last) == IN.size);
        for (j = 0; j < MSZ; j++) if (j < IN.size) VERIF_ASSERT ("C19.queue.newest_bytes", ((unsigned char *) get_slot (Q, last))[sizeof (size_t) + j] == IN.msg[j]);
        VERIF_ASSERT ("C19.queue.never_overfull", Q->count <= CAP);
        if (QFLAGS & ASYNC_QUEUE_SIGNAL_ON_DATA) VERIF_ASSERT ("C19.queue.signals_data", not_empty_set == 1);
      }
    if (waits > 0) VERIF_WITNESS ("blocked_writer_waited");
    if (ok && c0 == CAP) VERIF_WITNESS ("enqueue_on_full");
    if (!ok) VERIF_WITNESS ("enqueue_refused");
  }
#elif OP == 1    /* dequeue */
  {
    unsigned char buf[MSZ + 1]; size_t out = 77; bool ok;
    __CPROVER_assume (IN.bufsz <= MSZ);
    ok = async_queue_dequeue (Q, buf, IN.bufsz, &out);
    VERIF_ASSERT ("C19.queue.lock_balanced", !held && lock_errors == 0);
    VERIF_ASSERT ("C19.queue.ring_invariant", Q->head < CAP && Q->tail < CAP && Q->count <= CAP && Q->head == (Q->tail + Q->count) % CAP);
    if (c0 == 0) VERIF_ASSERT ("C19.queue.empty_dequeue_fails", !ok);
    else if (g_len[0] > IN.bufsz) VERIF_ASSERT ("C19.queue.small_buffer_keeps_message", !ok && Q->count == c0 && slot_equals (0, 0));
    else
      {
        VERIF_ASSERT ("C19.queue.dequeue_hands_over_oldest", ok && out == g_len[0] && Q->count == c0 - 1 && Q->dequeue_count == d0 + 1);
        for (j = 0; j < MSZ; j++) if (j < g_len[0]) VERIF_ASSERT ("C19.queue.dequeue_bytes", buf[j] == g_body[0][j]);
        for (i = 0; i + 1 < CAP; i++) if (i + 1 < c0) VERIF_ASSERT ("C19.queue.dequeue_keeps_rest_in_order", slot_equals (i, i + 1));
        if (QFLAGS & ASYNC_QUEUE_BLOCK_WRITER) VERIF_ASSERT ("C19.queue.dequeue_wakes_blocked_writer", not_full_set == 1);
        VERIF_WITNESS ("dequeued");
      }
  }
#else            /* clear / is_empty / is_full / stats */
  {
    async_queue_stats_t st;
    VERIF_ASSERT ("C19.queue.is_empty", async_queue_is_empty (Q) == (c0 == 0));
    VERIF_ASSERT ("C19.queue.is_full", async_queue_is_full (Q) == (c0 == CAP));
    async_queue_get_stats (Q, &st);
    VERIF_ASSERT ("C19.queue.stats", st.current_size == c0 && st.capacity == CAP && st.enqueue_count == e0);
    async_queue_clear (Q);
    VERIF_ASSERT ("C19.queue.clear", Q->count == 0 && Q->head == Q->tail && async_queue_is_empty (Q));
    VERIF_ASSERT ("C19.queue.lock_balanced", !held && lock_errors == 0);
  }
#endif
  VERIF_WITNESS ("end");
}
