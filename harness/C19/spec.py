BASE = ['@world/world_base.c']
def jobs(tier, ctx):
    out = []
    nps = [2] if tier == 'quick' else [2, 3]
    for np in nps:
        # three posts are decided with one event per wait only (the wider waits run out of 11 GB / 300 s)
        for mx in ([np + 2, 1] if tier == 'quick' else ([np + 2, 1, 2] if np == 2 else [1])):
            out.append(dict(name='epoll_carrier.n%d.max%d' % (np, mx), srcs=['@harness/C19/epoll_carrier.c'], stubs=[], defs=['NP=%d' % np, 'MAXEV=%d' % mx], unwind=np + 5, union_as_struct=False,
                        targets=['async_runtime_wait', 'async_runtime_post_completion', 'async_runtime_wakeup'], timeout=300, mem_gb=12, opt_witness=['second_wait_delivered'],
                        desc='<= %d posts (completion with any non-zero key/data, or wake-up), then async_runtime_wait calls of at most %d events until one returns nothing: each completion delivered once with its key and data, nothing invented, nothing lost when the posts exceed one wait' % (np, mx),
                        inputs='number of posts, kind/key/data of each',
                        assumptions=['the notification carrier is whichever kernel object the runtime creates, modelled with its documented semantics: eventfd (counter adds; read returns the sum and resets) or O_NONBLOCK pipe (FIFO of atomic 8-byte records, EAGAIN when empty/full); epoll level-triggered',
                                     'posts from other threads are single atomic write() calls, so only their number and order matter']))
    caps = [2] if tier == 'quick' else [1, 2, 3]
    for cap in caps:
        for (fl, nm) in ((0, 'fail'), (1, 'drop'), (2, 'block'), (6, 'block_signal')):
            for op, onm in ((0, 'enqueue'), (1, 'dequeue'), (2, 'misc')):
                if tier == 'quick' and nm == 'block_signal' and op != 0:
                    continue
                out.append(dict(name='queue.%s.%s.cap%d' % (onm, nm, cap), srcs=['@harness/C19/queue_step.c'], stubs=[], defs=['CAP=%d' % cap, 'QFLAGS=%d' % fl, 'OP=%d' % op],
                                unwind=8, union_as_struct=False, targets=['async_queue_' + ('enqueue' if op == 0 else 'dequeue' if op == 1 else 'clear')], timeout=200, mem_gb=4,
                                opt_witness=['blocked_writer_waited', 'enqueue_on_full', 'enqueue_refused', 'dequeued'],
                                desc='one %s on an arbitrary valid ring of capacity %d, policy %s: FIFO contract, policy, lock discipline' % (onm, cap, nm),
                                inputs='head, count, slot lengths and bodies, message, sizes; consumer activity during a blocked wait',
                                assumptions=['mutex/event primitives (C++ sync.cpp) are stubs with a ghost lock flag; mutual exclusion of the mutex itself is trusted',
                                             'interleavings inside a critical section and weak-memory effects are not explored']))
    return out
