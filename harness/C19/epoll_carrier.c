/* C19(1): completions/wake-ups posted to the event loop are delivered once each with their key and data.
 * Real: lib/async/async_runtime_epoll.c (init, post_completion, wakeup, wait).
 * Environment = the kernel objects the runtime may use as its notification carrier, with their documented semantics:
 *  - eventfd: write adds to a 64-bit counter; read returns the sum and zeroes it, EAGAIN when zero;
 *  - pipe (pipe2, O_NONBLOCK): a FIFO of bytes; a write of <= PIPE_BUF bytes is atomic; read returns up to n bytes,
 *    EAGAIN when empty; modelled as a FIFO of 8-byte records with room for PIPE_RECS records (EAGAIN when full);
 *  - epoll reports a registered descriptor readable iff its counter is non-zero / its FIFO is non-empty (level-triggered).
 * Posts from other threads are atomic write() calls, so "however posts interleave or pile up" = any
 * number/order of posts between two waits: here <= NP posts, each a completion or a wake-up.
 */
#include "lib/async/async_runtime_epoll.c"
#include "verif.h"
#ifndef NP
#define NP 2
#endif
#define IN_FIELDS(S,A) S(int, n) A(int, is_wake, NP) A(uint32_t, key, NP) A(uint32_t, data, NP)
#include "verif_in.h"

#define EFD 7
#define EPFD 5
#define PRD 8
#define PWR 9
#define PIPE_RECS (NP + 2)
static uint64_t efd_counter; static int efd_registered, prd_registered;
static uint64_t pipe_rec[PIPE_RECS]; static int pipe_n;
int epoll_create1 (int f) { (void) f; return EPFD; }
int eventfd (unsigned init, int flags) { (void) flags; efd_counter = init; return EFD; }
int pipe2 (int fds[2], int flags) { (void) flags; fds[0] = PRD; fds[1] = PWR; pipe_n = 0; return 0; }
int epoll_ctl (int ep, int op, int fd, struct epoll_event *ev)
{
  (void) ep; (void) ev;
  if (fd == EFD && op == EPOLL_CTL_ADD) efd_registered = 1;
  if (fd == PRD && op == EPOLL_CTL_ADD) prd_registered = 1;
  return 0;
}
int close (int fd) { (void) fd; return 0; }
ssize_t write (int fd, const void *buf, size_t n)
{
  uint64_t v;
  if (n != 8) return -1;
  v = *(const uint64_t *) buf;
  if (fd == EFD) { efd_counter += v; return 8; }            /* kernel: values are added */
  if (fd == PWR)
    {
      if (pipe_n >= PIPE_RECS) { errno = EAGAIN; return -1; }
      pipe_rec[pipe_n++] = v;                                /* kernel: appended, atomically (8 <= PIPE_BUF) */
      return 8;
    }
  return -1;
}
ssize_t read (int fd, void *buf, size_t n)
{
  int i;
  if (n < 8) return -1;
  if (fd == EFD)
    {
      if (efd_counter == 0) { errno = EAGAIN; return -1; }
      *(uint64_t *) buf = efd_counter; efd_counter = 0;
      return 8;
    }
  if (fd == PRD)
    {
      if (pipe_n == 0) { errno = EAGAIN; return -1; }
      *(uint64_t *) buf = pipe_rec[0];
      for (i = 1; i < PIPE_RECS; i++) pipe_rec[i - 1] = pipe_rec[i];
      pipe_n--;
      return 8;
    }
  return -1;
}
int epoll_wait (int ep, struct epoll_event *evs, int max, int timeout)
{
  (void) ep; (void) timeout;
  if (max < 1) return 0;
  if (efd_registered && efd_counter != 0) { evs[0].events = EPOLLIN; evs[0].data.u64 = 0; evs[0].data.fd = EFD; return 1; }
  if (prd_registered && pipe_n != 0) { evs[0].events = EPOLLIN; evs[0].data.u64 = 0; evs[0].data.fd = PRD; return 1; }
  return 0;
}

void harness (void)
{
  async_runtime_t *rt; io_event_t ev[NP + 2]; int i, j, got, ncomp = 0, nwake = 0;
  verif_in_init ();
  __CPROVER_assume (IN.n >= 1 && IN.n <= NP);
  rt = async_runtime_init ();
  __CPROVER_assume (rt != 0);
  for (i = 0; i < NP; i++)
    if (i < IN.n)
      {
        if (IN.is_wake[i]) { VERIF_ASSERT ("C19.wakeup_accepted", async_runtime_wakeup (rt) == 0); nwake++; }
        else
          {
            __CPROVER_assume (IN.key[i] != 0);   /* key 0 is the wake-up marker */
            VERIF_ASSERT ("C19.post_accepted", async_runtime_post_completion (rt, IN.key[i], IN.data[i]) == 0);
            ncomp++;
          }
      }
#ifndef MAXEV
#define MAXEV (NP + 2)
#endif
  /* the loop collects what was posted: waits of at most MAXEV events each until one returns nothing (<= NP + 1 waits);
     the events of every wait are copied into ev[] at a concrete position (a symbolic destination exhausts the solver) */
  {
    int w, r, stop = 0; io_event_t one[MAXEV];
    got = 0;
    for (w = 0; w < NP + 1; w++)
      if (!stop)
        {
          r = async_runtime_wait (rt, one, MAXEV, 0);
          if (w == 0) VERIF_ASSERT ("C19.loop_wakes_up", r >= 1);
          VERIF_ASSERT ("C19.wait_result_in_range", r >= 0 && r <= MAXEV);
          if (r <= 0) stop = 1;
          else
            {
              for (j = 0; j < MAXEV; j++)
                if (j < r)
                  {
                    VERIF_ASSERT ("C19.not_more_events_than_posts", got < NP + 2);
                    for (i = 0; i < NP + 2; i++) if (i == got) ev[i] = one[j];
                    got++;
                  }
              if (w >= 1) VERIF_WITNESS ("second_wait_delivered");
            }
        }
  }
  /* every posted completion is delivered exactly once with its key and data */
  for (i = 0; i < NP; i++)
    if (i < IN.n && !IN.is_wake[i])
      {
        int hits = 0, dup_posts = 0;
        for (j = 0; j < NP; j++) if (j < IN.n && !IN.is_wake[j] && IN.key[j] == IN.key[i] && IN.data[j] == IN.data[i]) dup_posts++;
        for (j = 0; j < NP + 2; j++)
          if (j < got && ev[j].fd == -1 && ev[j].completion_key == IN.key[i] && (uint32_t) ev[j].bytes_transferred == IN.data[i]) hits++;
        if (nwake == 0 && ncomp >= 2) VERIF_ASSERT ("C19.piled_up_completions_delivered_separately", hits == dup_posts);
        else if (nwake > 0) VERIF_ASSERT ("C19.completion_not_garbled_by_wakeup", hits == dup_posts);
        else VERIF_ASSERT ("C19.single_completion_delivered", hits == dup_posts);
      }
  /* nothing is delivered that was not posted */
  for (j = 0; j < NP + 2; j++)
    if (j < got && ev[j].completion_key != 0)
      {
        int posted = 0;
        for (i = 0; i < NP; i++) if (i < IN.n && !IN.is_wake[i] && IN.key[i] == ev[j].completion_key && IN.data[i] == (uint32_t) ev[j].bytes_transferred) posted = 1;
        if (IN.n >= 2) VERIF_ASSERT ("C19.no_invented_completion_when_posts_pile_up", posted);   /* summed posts read back as one garbled event */
        else VERIF_ASSERT ("C19.no_invented_completion", posted);
      }
  if (ncomp == 2) VERIF_WITNESS ("two_completions");
  if (ncomp == 1 && nwake == 1) VERIF_WITNESS ("completion_and_wakeup");
  VERIF_WITNESS ("end");
}
