/* C19(1): completions/wake-ups posted to the event loop are delivered once each with their key and data.
 * Real: lib/async/async_runtime_epoll.c (init, post_completion, wakeup, wait).
 * Environment: eventfd with the kernel's semantics (write adds to a 64-bit counter; read returns the sum
 * and zeroes it, EAGAIN when zero); epoll reports the eventfd readable iff its counter is non-zero.
 * Posts from other threads are atomic write() calls, so "however posts interleave or pile up" = any
 * number/order of posts between two waits: here <= NP posts, each a completion or a wake-up.
 */
#include "lib/async/async_runtime_epoll.c"
#include "verif.h"
#ifndef NP
#define NP 2
#endif
#define IN_FIELDS(S,A) S(int, n) A(int, is_wake, NP) A(uint32_t, key, NP) A(uint32_t, data, NP)
#include "verif_in.h"

#define EFD 7
#define EPFD 5
static uint64_t efd_counter; static int efd_registered;
int epoll_create1 (int f) { (void) f; return EPFD; }
int eventfd (unsigned init, int flags) { (void) flags; efd_counter = init; return EFD; }
int epoll_ctl (int ep, int op, int fd, struct epoll_event *ev) { (void) ep; (void) ev; if (fd == EFD && op == EPOLL_CTL_ADD) efd_registered = 1; return 0; }
int close (int fd) { (void) fd; return 0; }
ssize_t write (int fd, const void *buf, size_t n)
{
  uint64_t v;
  if (fd != EFD || n != 8) return -1;
  v = *(const uint64_t *) buf;
  efd_counter += v;            /* kernel: values are added */
  return 8;
}
ssize_t read (int fd, void *buf, size_t n)
{
  if (fd != EFD || n < 8) return -1;
  if (efd_counter == 0) { errno = EAGAIN; return -1; }
  *(uint64_t *) buf = efd_counter; efd_counter = 0;
  return 8;
}
int epoll_wait (int ep, struct epoll_event *evs, int max, int timeout)
{
  (void) ep; (void) timeout;
  if (max < 1) return 0;
  if (efd_registered && efd_counter != 0) { evs[0].events = EPOLLIN; evs[0].data.u64 = 0; evs[0].data.fd = EFD; return 1; }
  return 0;
}

void harness (void)
{
  async_runtime_t *rt; io_event_t ev[NP + 2]; int i, j, got, ncomp = 0, nwake = 0;
  verif_in_init ();
  __CPROVER_assume (IN.n >= 1 && IN.n <= NP);
  rt = async_runtime_init ();
  __CPROVER_assume (rt != 0);
  for (i = 0; i < NP; i++)
    if (i < IN.n)
      {
        if (IN.is_wake[i]) { VERIF_ASSERT ("C19.wakeup_accepted", async_runtime_wakeup (rt) == 0); nwake++; }
        else
          {
            __CPROVER_assume (IN.key[i] != 0);   /* key 0 is the wake-up marker */
            VERIF_ASSERT ("C19.post_accepted", async_runtime_post_completion (rt, IN.key[i], IN.data[i]) == 0);
            ncomp++;
          }
      }
  got = async_runtime_wait (rt, ev, NP + 2, 0);
  VERIF_ASSERT ("C19.loop_wakes_up", got >= 1);
  /* every posted completion is delivered exactly once with its key and data */
  for (i = 0; i < NP; i++)
    if (i < IN.n && !IN.is_wake[i])
      {
        int hits = 0, dup_posts = 0;
        for (j = 0; j < NP; j++) if (j < IN.n && !IN.is_wake[j] && IN.key[j] == IN.key[i] && IN.data[j] == IN.data[i]) dup_posts++;
        for (j = 0; j < NP + 2; j++)
          if (j < got && ev[j].fd == -1 && ev[j].completion_key == IN.key[i] && (uint32_t) ev[j].bytes_transferred == IN.data[i]) hits++;
        if (nwake == 0 && ncomp >= 2) VERIF_ASSERT ("C19.piled_up_completions_delivered_separately", hits == dup_posts);
        else if (nwake > 0) VERIF_ASSERT ("C19.completion_not_garbled_by_wakeup", hits == dup_posts);
        else VERIF_ASSERT ("C19.single_completion_delivered", hits == dup_posts);
      }
  /* nothing is delivered that was not posted */
  for (j = 0; j < NP + 2; j++)
    if (j < got && ev[j].completion_key != 0)
      {
        int posted = 0;
        for (i = 0; i < NP; i++) if (i < IN.n && !IN.is_wake[i] && IN.key[i] == ev[j].completion_key && IN.data[i] == (uint32_t) ev[j].bytes_transferred) posted = 1;
        if (IN.n >= 2) VERIF_ASSERT ("C19.no_invented_completion_when_posts_pile_up", posted);   /* summed posts read back as one garbled event */
        else VERIF_ASSERT ("C19.no_invented_completion", posted);
      }
  if (ncomp == 2) VERIF_WITNESS ("two_completions");
  if (ncomp == 1 && nwake == 1) VERIF_WITNESS ("completion_and_wakeup");
  VERIF_WITNESS ("end");
}
