BASE = ['@world/world_base.c', '@world/libc_models.c', '@harness/C14/stubs.c']
A = ['socket modelled by send(): each call returns any k in [1,len] or -1 with errno in {EWOULDBLOCK,EINTR,EPIPE,ECONNRESET}; <=3 send calls per operation',
     'snoop copies and the console (write) path are cut; kernel socket behaviour outside']
def jobs(tier, ctx):
    out = []
    win = ['WIN=3'] if tier == 'quick' else []
    out.append(dict(name='flush_step', srcs=['@harness/C14/ring.c'], stubs=BASE, defs=['MODE_FLUSH=1'] + win, unwind=5, unwindset=['setup.0:4097' if tier != 'quick' else 'setup.0:40'],
                    targets=['flush_message'], timeout=900, mem_gb=16, opt_witness=['partial_writes', 'sent_across_wrap_in_two_chunks', 'dead'],
                    desc='flush_message on an arbitrary valid ring: chunks are the oldest unsent bytes in order, never across the wrap, consumer/length advance by exactly what send accepted',
                    inputs='consumer, length (symbolic%s), send results/errnos, probe index' % (' inside the wrap windows' if win else ' over the whole 4096 ring'), assumptions=A))
    for nm in ([2] if tier == 'quick' else [2, 3]):
      for (cs, ls) in ([(0, 0), (0, 1), (1, 0), (1, 1)] if win else [(None, None)]):
        out.append(dict(name='add_step.n%d' % nm + ('.c%d_l%d' % (cs, ls) if win else ''), srcs=['@harness/C14/ring.c'], stubs=BASE, defs=['MODE_ADD=1', 'NM=%d' % nm] + win + (['CSIDE=%d' % cs, 'LSIDE=%d' % ls] if win else []), unwind=2 * nm + 3, unwindset=['setup.0:4097' if tier != 'quick' else 'setup.0:40'],
                        targets=['add_message', 'flush_message'], timeout=900, mem_gb=(4 if win else 16), opt_witness=['tail_dropped', 'flushed_then_appended', 'crlf_inserted'],
                        desc='add_message of any %d-byte text (incl. LF) on an arbitrary valid ring: CRLF translation, appended after the old data in order, old unsent data intact, only the tail dropped and only when full or dead' % nm,
                        inputs='consumer, length, message bytes, send results/errnos, probe index', assumptions=A))
    return out
