BASE = ['@world/world_base.c', '@world/libc_models.c', '@harness/C14/stubs.c']
A = ['socket modelled by send(): each call returns any k in [1,len] or -1 with errno in {EWOULDBLOCK,EINTR,EPIPE,ECONNRESET}; <=3 send calls per operation',
     'snoop copies and the console (write) path are cut; kernel socket behaviour outside']
def jobs(tier, ctx):
    out = []
    win = ['WIN=3'] if tier == 'quick' else []
    # add_message over the whole 4096-byte ring does not finish in 900 s: the thorough tier widens the wrap windows to 8 and
    # adds 3-byte messages; flush_message is decided over the whole ring in the thorough tier
    awin = ['WIN=3'] if tier == 'quick' else ['WIN=8']
    out.append(dict(name='flush_step', srcs=['@harness/C14/ring.c'], stubs=BASE, defs=['MODE_FLUSH=1'] + win, unwind=5, unwindset=['setup.0:4097' if tier != 'quick' else 'setup.0:40'],
                    targets=['flush_message'], timeout=900, mem_gb=16, opt_witness=['partial_writes', 'sent_across_wrap_in_two_chunks', 'dead'],
                    desc='flush_message on an arbitrary valid ring: chunks are the oldest unsent bytes in order, never across the wrap, consumer/length advance by exactly what send accepted',
                    inputs='consumer, length (symbolic%s), send results/errnos, probe index' % (' inside the wrap windows' if win else ' over the whole 4096 ring'), assumptions=A))
    for nm in ([2] if tier == 'quick' else [2, 3]):
      for (cs, ls) in [(0, 0), (0, 1), (1, 0), (1, 1)]:
        out.append(dict(name='add_step.n%d.c%d_l%d' % (nm, cs, ls), srcs=['@harness/C14/ring.c'], stubs=BASE, defs=['MODE_ADD=1', 'NM=%d' % nm] + awin + ['CSIDE=%d' % cs, 'LSIDE=%d' % ls], unwind=2 * nm + 3, unwindset=['setup.0:60'],
                        targets=['add_message', 'flush_message'], timeout=(900 if tier == 'quick' else 2400), mem_gb=4, opt_witness=['tail_dropped', 'flushed_then_appended', 'crlf_inserted'],
                        desc='add_message of any %d-byte text (incl. LF) on an arbitrary valid ring (indices inside the wrap windows): CRLF translation, appended after the old data in order, old unsent data intact, only the tail dropped and only when full or dead' % nm,
                        inputs='consumer, length (inside the %s-wide wrap windows), message bytes, send results/errnos, probe index' % awin[0][4:], assumptions=A))
    return out
