/* C14: output ring of an interactive connection.  Real: src/comm.c add_message, flush_message (via #include).
 * Ghost: the pending byte sequence is the ring content from message_consumer for message_length bytes.
 * Inv: 0 <= consumer, producer < SIZE, 0 <= length <= SIZE, producer == (consumer + length) % SIZE.
 * send() returns, on each call, any k in [1,len] or -1 with errno in {EWOULDBLOCK, EINTR, EPIPE, ECONNRESET}.
 */
#include "src/comm.c"
#include "verif.h"
#define SIZE MESSAGE_BUF_SIZE
#ifndef NM
#define NM 2
#endif
#define NS 3
#define IN_FIELDS(S,A) S(int, consumer) S(int, length) A(unsigned char, pat, 8) A(char, msg, NM + 1) \
  A(int, sret, NS) A(int, serr, NS) S(int, probe) S(int, iflags)
#include "verif_in.h"

static interactive_t UIP, CONSOLE; static object_t WHO;
static int send_calls, total_sent, order_ok = 1, window_ok = 1, c0, l0;
extern int g_modify_calls, g_modify_last;

ssize_t send (int fd, const void *buf, size_t len, int flags)
{
  int k = send_calls++;
  (void) fd; (void) flags;
  /* the chunk must start at the oldest unsent byte, stay inside the pending data and not cross the wrap */
  if ((const char *) buf != UIP.message_buf + ((c0 + total_sent) % SIZE)) order_ok = 0;
  if (len < 1 || (int) len > UIP.message_length || ((c0 + total_sent) % SIZE) + (int) len > SIZE) window_ok = 0;
  __CPROVER_assume (k < NS);
  if (IN.sret[k] < 0)
    {
      __CPROVER_assume (IN.serr[k] == EWOULDBLOCK || IN.serr[k] == EINTR || IN.serr[k] == EPIPE || IN.serr[k] == ECONNRESET);
      errno = IN.serr[k];
      return -1;
    }
  __CPROVER_assume (IN.sret[k] >= 1 && (size_t) IN.sret[k] <= len);
  total_sent += IN.sret[k];
  return IN.sret[k];
}

#ifdef WIN
static int in_window (int v, int hi) { return (v >= 0 && v < WIN) || (v > hi - WIN && v <= hi); }
#endif

static void setup (void)
{
  int i;
  __CPROVER_assume (IN.consumer >= 0 && IN.consumer < SIZE && IN.length >= 0 && IN.length <= SIZE);
#ifdef WIN
  /* quick tier: indices stay symbolic but inside the wrap neighbourhoods (DESIGN 5/C14) */
  __CPROVER_assume (in_window (IN.consumer, SIZE - 1) && in_window (IN.length, SIZE));
#ifdef CSIDE
  /* case split (the four jobs together cover the windows): consumer / length in the low or the high neighbourhood */
  __CPROVER_assume (CSIDE ? IN.consumer >= WIN : IN.consumer < WIN);
  __CPROVER_assume (LSIDE ? IN.length >= WIN : IN.length < WIN);
#endif
#endif
#ifdef WIN
  /* only the wrap neighbourhoods can be touched when the indices are inside the windows */
  for (i = 0; i < 2 * WIN + 2 * NM + 8; i++) { UIP.message_buf[i] = (char) (IN.pat[i & 7] + (i >> 3)); UIP.message_buf[SIZE - 1 - i] = (char) (IN.pat[(SIZE - 1 - i) & 7] + ((SIZE - 1 - i) >> 3)); }
#else
  for (i = 0; i < SIZE; i++) UIP.message_buf[i] = (char) (IN.pat[i & 7] + (i >> 3));
#endif
  UIP.message_consumer = c0 = IN.consumer; UIP.message_length = l0 = IN.length; UIP.message_producer = (IN.consumer + IN.length) % SIZE;
  UIP.ob = &WHO; UIP.fd = 9; UIP.iflags = IN.iflags & ~(NET_DEAD | CLOSING); UIP.snoop_by = 0; UIP.out_of_band = 0;
  WHO.interactive = &UIP; WHO.flags = 0;
  all_users = (interactive_t **) malloc (2 * sizeof (interactive_t *));
  __CPROVER_assume (all_users != 0);
  all_users[0] = &CONSOLE; all_users[1] = &UIP; max_users = 2;
}
static int inv (void)
{
  return UIP.message_consumer >= 0 && UIP.message_consumer < SIZE && UIP.message_producer >= 0 && UIP.message_producer < SIZE
    && UIP.message_length >= 0 && UIP.message_length <= SIZE && UIP.message_producer == (UIP.message_consumer + UIP.message_length) % SIZE;
}
static char orig_at (int pos) { return (char) (IN.pat[pos & 7] + (pos >> 3)); }

void harness (void)
{
  verif_in_init ();
  setup ();
#ifdef MODE_FLUSH
  {
    int r = flush_message (&UIP);
    VERIF_ASSERT ("C14.flush.sends_oldest_unsent_bytes_in_order", order_ok);
    VERIF_ASSERT ("C14.flush.chunk_inside_pending_and_not_across_wrap", window_ok);
    VERIF_ASSERT ("C14.flush.invariant", inv ());
    VERIF_ASSERT ("C14.flush.consumes_exactly_what_was_sent", UIP.message_consumer == (c0 + total_sent) % SIZE && UIP.message_length == l0 - total_sent);
    VERIF_ASSERT ("C14.flush.producer_untouched", UIP.message_producer == (c0 + l0) % SIZE);
    if (UIP.iflags & NET_DEAD) VERIF_ASSERT ("C14.flush.dead_only_on_fatal_errno", r == 0 && send_calls >= 1 && IN.sret[send_calls - 1] < 0
                                            && IN.serr[send_calls - 1] != EWOULDBLOCK && IN.serr[send_calls - 1] != EINTR);
    else VERIF_ASSERT ("C14.flush.alive_returns_1", r == 1);
    if (!(UIP.iflags & NET_DEAD) && UIP.message_length > 0) VERIF_ASSERT ("C14.flush.write_interest_requested_while_data_remains", g_modify_calls >= 1 && (g_modify_last & EVENT_WRITE));
    if (!(UIP.iflags & NET_DEAD) && UIP.message_length == 0 && l0 > 0) VERIF_ASSERT ("C14.flush.write_interest_dropped_when_empty", g_modify_calls >= 1 && !(g_modify_last & EVENT_WRITE));
    { int p = IN.probe; __CPROVER_assume (p >= 0 && p < SIZE);
#ifdef WIN
      __CPROVER_assume (p < 2 * WIN + 2 * NM + 8 || p >= SIZE - (2 * WIN + 2 * NM + 8));
#endif
      VERIF_ASSERT ("C14.flush.buffer_content_untouched", UIP.message_buf[p] == orig_at (p)); }
    if (send_calls >= 2 && total_sent > 0) VERIF_WITNESS ("partial_writes");
    if (c0 + l0 > SIZE && total_sent > SIZE - c0) VERIF_WITNESS ("sent_across_wrap_in_two_chunks");
    if (UIP.iflags & NET_DEAD) VERIF_WITNESS ("dead");
  }
#endif
#ifdef MODE_ADD
  {
    /* expected bytes: crlf(msg) */
    char exp[2 * NM + 1]; int ne = 0, i, appended, n = 0;
    IN.msg[NM] = 0;
    while (IN.msg[n]) n++;
    for (i = 0; i < NM; i++) if (i < n) { if (IN.msg[i] == '\n') exp[ne++] = '\r'; exp[ne++] = IN.msg[i]; }
    add_message (&WHO, IN.msg);
    VERIF_ASSERT ("C14.add.sends_oldest_unsent_bytes_in_order", order_ok);
    VERIF_ASSERT ("C14.add.chunk_inside_pending_and_not_across_wrap", window_ok);
    VERIF_ASSERT ("C14.add.invariant", inv ());
    VERIF_ASSERT ("C14.add.consumer_advances_by_sent", UIP.message_consumer == (c0 + total_sent) % SIZE);
    appended = UIP.message_length + total_sent - l0;      /* bytes of crlf(msg) now in the stream */
    VERIF_ASSERT ("C14.add.appends_a_prefix_of_the_message", appended >= 0 && appended <= ne);
    /* the appended bytes sit right after the old pending data, in order: nothing duplicated or reordered */
    for (i = 0; i < 2 * NM; i++)
      if (i < appended && l0 + i >= total_sent)
        VERIF_ASSERT ("C14.add.appended_bytes_in_order_with_CRLF", UIP.message_buf[(c0 + l0 + i) % SIZE] == exp[i]);
    /* old unsent data is not overwritten */
    {
      int p = IN.probe, logical;
      __CPROVER_assume (p >= 0 && p < SIZE);
#ifdef WIN
      __CPROVER_assume (p < 2 * WIN + 2 * NM + 8 || p >= SIZE - (2 * WIN + 2 * NM + 8));
#endif
      logical = (p - c0 + SIZE) % SIZE;
      if (logical < l0 && logical >= total_sent) VERIF_ASSERT ("C14.add.unsent_old_data_not_overwritten", UIP.message_buf[p] == orig_at (p));
    }
    /* bytes are lost only when the buffer is full or the connection died, and then only the tail */
    if (appended < ne)
      VERIF_ASSERT ("C14.add.tail_dropped_only_when_full_or_dead", (UIP.iflags & NET_DEAD) || UIP.message_length >= SIZE - 1);
    /* a CR is never left without its LF */
    if (appended > 0 && appended < ne) VERIF_ASSERT ("C14.add.no_lone_CR", !(exp[appended - 1] == '\r' && exp[appended] == '\n'));
    if (appended < ne) VERIF_WITNESS ("tail_dropped");
    if (send_calls >= 1 && appended == ne) VERIF_WITNESS ("flushed_then_appended");
    if (appended == ne && ne > n) VERIF_WITNESS ("crlf_inserted");
  }
#endif
  VERIF_WITNESS ("end");
}
