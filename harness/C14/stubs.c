#include <config.h>
#include "std.h"
#include "lpc/object.h"
#include "comm.h"
#include "async/async_runtime.h"
#include "interpret.h"
#include "apply.h"
#include "verif.h"
int g_modify_calls, g_modify_last;
int async_runtime_modify (async_runtime_t *rt, socket_fd_t fd, uint32_t events, void *ctx) { (void) rt; (void) fd; (void) ctx; g_modify_calls++; g_modify_last = (int) events; return 0; }
ssize_t write (int fd, const void *b, size_t n) { (void) fd; (void) b; (void) n; VERIF_UNREACHABLE ("console write"); return -1; }
svalue_t *apply (const char *f, object_t *o, int n, int w) { (void) f; (void) o; (void) n; (void) w; VERIF_UNREACHABLE ("apply (snoop)"); return 0; }
void copy_and_push_string (const char *s) { (void) s; VERIF_UNREACHABLE ("copy_and_push_string (snoop)"); }
