BASE = ['@world/world_base.c', '@world/libc_models.c', '@harness/C18/stubs.c']
def jobs(tier, ctx):
    out = []
    out.append(dict(name='line_runs', srcs=['@harness/C18/line_runs.c', 'src/simulate.c', 'lib/lpc/program.c'], stubs=BASE, export_statics=True, unwind=12,
                    targets=['switch_to_line', 'find_line', 'translate_absolute_line'], timeout=600, mem_gb=8, nobody_ok=['*'],
                    opt_witness=['statement_longer_than_255_bytes', 'third_statement'],
                    desc='switch_to_line driven through <=3 statements (code sizes 0..600, any lines), then find_line for EVERY pc: line of the covering statement',
                    inputs='number of statements, code size and line of each, probed pc',
                    assumptions=['the mem_block for line numbers is pre-allocated (growth by realloc cut)', 'one source file (file map decided by file_map harness)',
                                 'which line the generator attributes to a node (callers of switch_to_line) is outside']))
    out.append(dict(name='file_map', srcs=['@harness/C18/file_map.c', 'lib/lpc/program.c'], stubs=BASE, unwind=6,
                    targets=['translate_absolute_line'], timeout=300, mem_gb=4, nobody_ok=['*'], opt_witness=['last_line_of_segment', 'resumed_file'],
                    desc='translate_absolute_line on any table of <=4 segments (counts 1..9, 3 files, resumed files) for every absolute line vs the generator record',
                    inputs='segment counts and file ids, absolute line', assumptions=[]))
    return out
