/* C18(1): line-run encoding round trip.  Real encoder: lib/lpc/program/icode.c switch_to_line (+ the real inline
 * mem_block allocator of compiler.h); real decoder: src/simulate.c find_line (exported file-local symbol) and
 * lib/lpc/program.c translate_absolute_line.
 * <= 3 statements with symbolic code sizes in [0,600] and symbolic lines; then for EVERY pc inside the generated
 * code the decoder must name the line of the statement that covers the byte before pc.
 */
#include "lib/lpc/program/icode.c"
#include "verif.h"
#define NS 3
#define IN_FIELDS(S,A) A(int, size, NS) A(int, line, NS) S(int, probe) S(int, n)
#include "verif_in.h"
int __CPROVER_file_local_simulate_c_find_line (const char *p, const program_t *progp, char **ret_file, int *ret_line);
#define find_line __CPROVER_file_local_simulate_c_find_line

static char codebuf[2048]; static unsigned char lnbuf[64]; static unsigned short finfo[4]; static char *strs[1]; static char fname[] = "f.c";
void harness (void)
{
  static program_t prog; int i, total = 0, start[NS + 1], rline = -7, rc; char *rfile = 0;
  verif_in_init ();
  __CPROVER_assume (IN.n >= 1 && IN.n <= NS);
  mem_block[A_PROGRAM].block = codebuf; mem_block[A_PROGRAM].max_size = sizeof codebuf; mem_block[A_PROGRAM].current_size = 0;
  mem_block[A_LINENUMBERS].block = (char *) lnbuf; mem_block[A_LINENUMBERS].max_size = sizeof lnbuf; mem_block[A_LINENUMBERS].current_size = 0;
  current_block = A_PROGRAM; prog_code = codebuf; prog_code_max = codebuf + sizeof codebuf;
  line_being_generated = 0; last_size_generated = 0;              /* as i_initialize_parser() does */
  for (i = 0; i < NS; i++)
    if (i < IN.n)
      {
        __CPROVER_assume (IN.size[i] >= 0 && IN.size[i] <= 600 && IN.line[i] >= 1 && IN.line[i] <= 30000);
        if (i > 0) __CPROVER_assume (IN.line[i] != IN.line[i - 1]);   /* the generator switches only when the line changes */
        switch_to_line (IN.line[i]);
        start[i] = total;
        prog_code += IN.size[i]; total += IN.size[i];              /* the statement's code is emitted */
      }
  start[IN.n] = total;
  switch_to_line (-1);                                             /* "generate line numbers for the end" */
  VERIF_ASSERT ("C18.runs.block_not_overrun", mem_block[A_LINENUMBERS].current_size <= sizeof lnbuf);
  /* the program as the loader lays it out */
  prog.name = fname; prog.program = codebuf; prog.program_size = (unsigned short) total; prog.line_info = lnbuf;
  finfo[0] = 0; finfo[1] = 4; finfo[2] = 32000; finfo[3] = 1; prog.file_info = finfo; strs[0] = fname; prog.strings = strs;
  __CPROVER_assume (IN.probe >= 1 && IN.probe <= total);
  rc = find_line (codebuf + IN.probe, &prog, &rfile, &rline);
  for (i = 0; i < NS; i++)
    if (i < IN.n && IN.probe - 1 >= start[i] && IN.probe - 1 < start[i + 1])
      {
        VERIF_ASSERT ("C18.runs.pc_maps_to_line_of_covering_statement", rc == 0 && rline == IN.line[i]);
        VERIF_ASSERT ("C18.runs.file_name", rfile == fname);
        if (IN.size[i] > 255) VERIF_WITNESS ("statement_longer_than_255_bytes");
        if (i == 2) VERIF_WITNESS ("third_statement");
      }
  VERIF_WITNESS ("end");
}
