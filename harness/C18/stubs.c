#include "all_types.h"
#include "verif.h"
#ifdef VERIF_CBMC
void *realloc (void *p, size_t n) { (void) p; (void) n; VERIF_UNREACHABLE ("mem_block growth (realloc)"); return 0; }
#endif
program_t fake_prog;
void verif_on_error (void) { }
