/* C18(2): absolute line -> (file, line) map.  Real: lib/lpc/program.c translate_absolute_line.
 * The table is what the lexer records: a sequence of (line count, file id) segments, a file may be resumed after
 * an #include.  Reference = the generator's own record. */
#include "all_types.h"
#include "verif.h"
#define NE 4
#define IN_FIELDS(S,A) S(int, n) A(int, cnt, NE) A(int, file, NE) S(int, abs)
#include "verif_in.h"
int translate_absolute_line (int abs_line, unsigned short *file_info, size_t block_size, int *ret_file, int *ret_line);
void harness (void)
{
  unsigned short tab[2 * NE]; int i, j, cum = 0, rf = -1, rl = -1, r;
  verif_in_init ();
  __CPROVER_assume (IN.n >= 1 && IN.n <= NE);
  for (i = 0; i < NE; i++)
    {
      __CPROVER_assume (IN.cnt[i] >= 1 && IN.cnt[i] <= 9 && IN.file[i] >= 1 && IN.file[i] <= 3);
      if (i > 0) __CPROVER_assume (IN.file[i] != IN.file[i - 1]);
      tab[2 * i] = (unsigned short) IN.cnt[i]; tab[2 * i + 1] = (unsigned short) IN.file[i];
    }
  __CPROVER_assume (IN.abs >= 1);
  r = translate_absolute_line (IN.abs, tab, (size_t) IN.n * 2 * sizeof (unsigned short), &rf, &rl);
  for (i = 0; i < NE; i++)
    if (i < IN.n)
      {
        if (IN.abs > cum && IN.abs <= cum + IN.cnt[i])
          {
            int before = 0;
            for (j = 0; j < NE; j++) if (j < i && IN.file[j] == IN.file[i]) before += IN.cnt[j];
            VERIF_ASSERT ("C18.filemap.line_inside_segment_found", r == 0);
            VERIF_ASSERT ("C18.filemap.file_of_segment", rf == IN.file[i]);
            VERIF_ASSERT ("C18.filemap.line_within_file_counts_earlier_segments_of_same_file", rl == IN.abs - cum + before);
            if (IN.abs == cum + IN.cnt[i]) VERIF_WITNESS ("last_line_of_segment");
            if (before > 0) VERIF_WITNESS ("resumed_file");
          }
        cum += IN.cnt[i];
      }
  if (IN.abs > cum) VERIF_ASSERT ("C18.filemap.beyond_table_is_an_error_not_a_guess", r != 0);
  VERIF_WITNESS ("end");
}
