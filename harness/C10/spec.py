BASE = ['@world/world_base.c', '@world/libc_models.c']
A = ['time, error contexts and LPC callbacks are stubs: apply() records the firing (and performs the scripted re-entrant call); both branches of the setjmp site are taken',
     'wheel states explored: <=3 entries in one slot + <=1 in another, deltas <= DMAX, string-named call_outs without arguments (function-pointer call_outs and argument arrays are cut and must not be reached)',
     'free-list refill (CALLOCATE of a new chunk) is not exercised: two free nodes are provided']

UW = ['remove_call_out.0:6', 'find_call_out.0:6', 'remove_all_call_out.0:6', 'strcmp.0:4', 'new_call_out.0:21', 'new_call_out.1:6',
      'remove_call_out_by_handle.0:6', 'find_call_out_by_handle.0:6', 'due_in_slot.0:7', 'due_of.0:4', 'wheel_inv.0:7', 'wheel_inv.1:4',
      'setup.0:5', 'setup.1:5', 'harness.0:9', 'harness.1:9', 'harness.2:9', 'call_out.0:6', 'call_out.1:6', 'call_out.2:6', 'call_out.3:6', 'call_out.4:6']

def J(name, mode, desc, inputs, tier, **kw):
    d = dict(name=name, srcs=['@harness/C10/callout.c'], stubs=BASE, defs=[mode + '=1'] + kw.pop('defs', []), unwind=34, unwindset=UW,
             targets=kw.pop('targets'), timeout=400, mem_gb=5, desc=desc, inputs=inputs, assumptions=A)
    d.update(kw)
    return d

def jobs(tier, ctx):
    out = []
    slots = [(0, 31), (7, 8)] if tier == 'quick' else [(0, 31), (7, 8), (31, 0), (16, 3)]
    for (x, y) in slots:
        for j in jobs1(tier, ['SLOT_X=%d' % x, 'SLOT_Y=%d' % y]):
            j['name'] += '.x%d_y%d' % (x, y)
            out.append(j)
    return out

def jobs1(tier, sl):
    dm = (['DMAX=3'] if tier == 'quick' else ['DMAX=6', 'LAGMAX=3']) + sl
    inp = 'call_out_time, lag, slots x/y, entry counts, deltas[4], owners, destructed flags'
    return [
        J('L1_insert', 'MODE_L1', 'new_call_out(delay in [-2,97]) on an arbitrary wheel state: new entry due exactly at current_time+max(delay,1), bystanders keep their due time, handle finds it',
          inp + ', delay', tier, defs=dm, targets=['new_call_out', 'find_call_out_by_handle']),
        J('L2_sweep', 'MODE_L2', 'call_out() over 1..LAGMAX seconds: exactly the entries whose due time has come fire, once, in order; destructed owners dropped; an error in one firing neither loses nor repeats others',
          inp + ', error mask', tier, defs=dm, targets=['call_out']),
    ] + [
        J('L2R_reentrant.act0.d%s' % str(dl).replace('-', 'm'), 'MODE_L2R', 'call_out() whose first callback really calls new_call_out(delay=%d): the new entry does not fire in the same sweep and is due exactly at current_time+max(delay,1)' % dl,
          inp, tier, defs=dm + ['ACT=0', 'L2R_NX=2', 'DELAY=(%d)' % dl], mem_gb=5, targets=['call_out', 'new_call_out'],
          opt_witness=['reentrant_delay_one_revolution', 'reentrant_insert', 'reentrant_remove', 'reentrant_find', 'two_fired', 'error_branch'])
        for dl in ((-1, 1, 31, 32, 33, 64) if tier == 'quick' else (-1, 0, 1, 2, 30, 31, 32, 33, 34, 63, 64, 65, 96))
    ] + [
        J('L2R_reentrant.act%d' % a, 'MODE_L2R', 'call_out() whose first callback really calls remove_call_out / remove_call_out_by_handle / find_call_out*: removed never fires; reported time left is exact; others unaffected',
          inp + ', action, target entry', tier, defs=dm + ['ACT=%d' % a, 'L2R_NX=2'], mem_gb=5, targets=['call_out'],
          opt_witness=['reentrant_delay_one_revolution', 'reentrant_insert', 'reentrant_remove', 'reentrant_find', 'two_fired', 'error_branch'])
        for a in range(1, 5)
    ] + [
        J('L3_query_cancel.act%d' % a, 'MODE_L3', 'remove/find by name and handle, remove_all_call_out at top level: report due-current_time, removed entry gone and released once, others keep their due time',
          inp + ', action, target entry', tier, defs=dm + ['ACT=%d' % a], targets=[], opt_witness=['remove_middle_of_three', 'remove_all'])
        for a in range(5)
    ] + [
        J('L3_query_cancel.act5.nx%d' % nx, 'MODE_L3', 'remove_all_call_out(owner) at top level with %d entries in slot X: every entry of the owner (and of destructed owners) gone and released once, others keep their due time' % nx,
          inp + ', target entry', tier, defs=dm + ['ACT=5', 'NXC=%d' % nx], targets=['remove_all_call_out'], timeout=(400 if tier == 'quick' else 2400), opt_witness=['remove_middle_of_three', 'remove_all'])
        for nx in (range(0, 2) if tier == 'quick' else range(0, 4))
    ]
