/* C10: timing wheel of lib/efuns/call_out.c as lemmas over a ghost "due time" (DESIGN 5/C10).
 * Real: new_call_out, call_out, remove_call_out, remove_call_out_by_handle, find_call_out,
 *       find_call_out_by_handle, remove_all_call_out, time_left, free_call (all via #include).
 * Universe: 4 entries E0..E3 + 2 free nodes as SEPARATE statics (rule 9), 2 owner objects.
 */
#include "lib/efuns/call_out.c"
#include "verif.h"

#define N CALLOUT_CYCLE_SIZE
#ifndef DMAX
#define DMAX 5
#endif
#ifndef SLOT_X
#define SLOT_X 0
#define SLOT_Y 31
#endif
#ifndef COTMAX
#define COTMAX 100000
#endif
#define COT_SWEEP ((int64_t) 32 * 1000 + ((SLOT_X + N - 1) & (N - 1)))
#ifndef L2R_NX
#define L2R_NX 2
#endif
#ifndef LAGMAX
#define LAGMAX 2
#endif
#define IN_FIELDS(S,A) S(int64_t, cot) S(int, lag) S(int, nx) S(int, ny) S(int, x) S(int, y) \
  A(int, delta, 4) A(int, dest, 2) A(int, owner, 4) S(int64_t, delay) S(int, act) S(int, k) S(unsigned, errmask)
#include "verif_in.h"

/* ---------------- world of this harness ---------------- */
object_t *command_giver, *current_interactive;
time_t current_time;
svalue_t const0;
static object_t OB0, OB1;
static pending_call_t E0, E1, E2, E3, F0, F1;
static char name0[] = "f0", name1[] = "f1", name2[] = "f2", name3[] = "f3", name_new[] = "fn";

static pending_call_t *EP (int i) { switch (i) { case 0: return &E0; case 1: return &E1; case 2: return &E2; case 3: return &E3; case 4: return &F0; default: return &F1; } }
static char *NAME (int i) { switch (i) { case 0: return name0; case 1: return name1; case 2: return name2; case 3: return name3; default: return name_new; } }
static object_t *OBP (int i) { return i ? &OB1 : &OB0; }
static int idx_of_name (const char *s) { if (s == name0) return 0; if (s == name1) return 1; if (s == name2) return 2; if (s == name3) return 3; if (s == name_new) return 4; return -1; }

static int fired[5], released[5], fire_seq[8], n_fire, err_fires, setjmp_calls, in_callback, callback_done;
static int64_t act_ret; static int act_done;

char *make_shared_string (const char *s) { return (char *) s; }
void free_string (char *s) { int i = idx_of_name (s); VERIF_ASSERT ("C10.release_known_name", i >= 0); if (i >= 0) released[i]++; }
void free_object (object_t *ob, const char *why) { (void) why; ob->ref--; }
void free_funp (funptr_t *f) { (void) f; VERIF_UNREACHABLE ("free_funp"); }
array_t *allocate_empty_array (size_t n) { (void) n; VERIF_UNREACHABLE ("allocate_empty_array"); return 0; }
#ifdef WITH_ARGS
/* C06: every pending call owns an (empty) argument array; ghost: how often each was released */
static array_t VS0, VS1, VS2, VS3; static int vs_released[4], vs_pushed;
static array_t *VSP (int i) { switch (i) { case 0: return &VS0; case 1: return &VS1; case 2: return &VS2; default: return &VS3; } }
static int vs_index (array_t *a) { if (a == &VS0) return 0; if (a == &VS1) return 1; if (a == &VS2) return 2; if (a == &VS3) return 3; return -1; }
void free_array (array_t *a) { int i = vs_index (a); VERIF_ASSERT ("C06.callout.released_array_is_an_argument_array", i >= 0); if (i >= 0) vs_released[i]++; }
void free_empty_array (array_t *a) { int i = vs_index (a); VERIF_ASSERT ("C06.callout.released_array_is_an_argument_array", i >= 0); if (i >= 0) vs_released[i]++; }
void transfer_push_some_svalues (svalue_t *v, int n) { (void) v; vs_pushed += n; }
#else
void free_array (array_t *a) { (void) a; VERIF_UNREACHABLE ("free_array"); }
void free_empty_array (array_t *a) { (void) a; VERIF_UNREACHABLE ("free_empty_array"); }
void transfer_push_some_svalues (svalue_t *v, int n) { (void) v; (void) n; VERIF_UNREACHABLE ("transfer_push"); }
#endif
svalue_t *call_function_pointer (funptr_t *f, int n) { (void) f; (void) n; VERIF_UNREACHABLE ("call_function_pointer"); return 0; }
int save_context (error_context_t *e) { (void) e; return 1; }
void restore_context (error_context_t *e) { (void) e; }
void pop_context (error_context_t *e) { (void) e; }
void error (const char *fmt, ...) { (void) fmt; VERIF_UNREACHABLE ("error"); VERIF_END_PATH (); for (;;) ; }

static void callback_action (void);
svalue_t *apply (const char *fun, object_t *ob, int n, int origin)
{
  int i = idx_of_name (fun);
  (void) n; (void) origin;
  VERIF_ASSERT ("C10.fired_known_entry", i >= 0 && i <= 4);
  if (i >= 0) { fired[i]++; if (n_fire < 8) fire_seq[n_fire] = i; n_fire++; }
  VERIF_ASSERT ("C10.never_calls_destructed_owner", !(ob->flags & O_DESTRUCTED));
#ifdef MODE_L2R
  if (!callback_done) { callback_done = 1; callback_action (); }
#endif
  return 0;
}
/* both branches of the setjmp site: bit k of errmask = the k-th firing raises an error before doing anything */
int _setjmp (struct __jmp_buf_tag env[1])
{
  int k = setjmp_calls++;
  (void) env;
#ifdef MODE_L2R
  if (k == 0) return 0;
#endif
#ifdef WITH_ARGS
  /* the error branch of this model skips the code between setjmp and the callback, where the real driver hands the
     argument array over; argument ownership is therefore decided on the normal branch only */
  return 0;
#endif
  if (k < 8 && ((IN.errmask >> k) & 1)) { err_fires++; return 1; }
  return 0;
}

/* ---------------- ghost: due time over the REAL wheel ---------------- */
static time_t next_visit (int s) { return call_out_time + 1 + ((s - (int) ((call_out_time + 1) & (N - 1))) & (N - 1)); }
/* returns due time of e if it is on slot s, else -1 */
static time_t due_in_slot (pending_call_t *e, int s)
{
  pending_call_t *c; time_t D = 0; int k;
  for (c = call_list[s], k = 0; c && k < 6; c = c->next, k++)
    { D += c->delta; if (c == e) return next_visit (s) + (D - 1) * N; }
  return -1;
}
static int cand[3];
static time_t due_of (pending_call_t *e)
{
  int j; time_t d;
  for (j = 0; j < 3; j++) { d = due_in_slot (e, cand[j]); if (d != -1) return d; }
  return -1;
}
static int wheel_inv (void)
{
  int j, k; pending_call_t *c;
  for (j = 0; j < 3; j++)
    for (c = call_list[cand[j]], k = 0; c && k < 6; c = c->next, k++)
      {
        if (k == 0 && c->delta < 1) return 0;
        if (c->delta < 0) return 0;
        if ((c->handle & (N - 1)) != cand[j]) return 0;
      }
  return 1;
}

static int on_wheel[4]; static time_t due0[4];
static void setup (void)
{
  int i, X = SLOT_X, Y = SLOT_Y;
  __CPROVER_assume (IN.x == SLOT_X && IN.y == SLOT_Y);
  __CPROVER_assume (IN.nx >= 0 && IN.nx <= 3 && IN.ny >= 0 && IN.ny <= 1);
#ifdef NXC
  /* case split: concrete list length in slot X (the jobs together cover 0..3) */
  __CPROVER_assume (IN.nx == (NXC)); IN.nx = (NXC);
#endif
#ifdef KC
  __CPROVER_assume (IN.k == (KC)); IN.k = (KC);
#endif
  __CPROVER_assume (IN.cot >= 1 && IN.cot <= COTMAX);
  __CPROVER_assume (IN.lag >= 0 && IN.lag <= LAGMAX);
  for (i = 0; i < 4; i++)
    {
      pending_call_t *e = EP (i);
      __CPROVER_assume (IN.delta[i] >= 0 && IN.delta[i] <= DMAX);
      __CPROVER_assume (IN.owner[i] == 0 || IN.owner[i] == 1);
      e->delta = IN.delta[i]; e->ob = OBP (IN.owner[i]); e->function.s = NAME (i); e->vs = 0; e->next = 0;
#ifdef WITH_ARGS
      e->vs = VSP (i); VSP (i)->ref = 1; VSP (i)->size = 0;
#endif
      e->command_giver = 0; e->handle = (i < 3 ? X : Y) + N * (i + 1);
      on_wheel[i] = (i < 3) ? (i < IN.nx) : (IN.ny == 1);
    }
  __CPROVER_assume (IN.delta[0] >= 1 && IN.delta[3] >= 1);
  OB0.flags = IN.dest[0] ? O_DESTRUCTED : 0; OB1.flags = IN.dest[1] ? O_DESTRUCTED : 0;
  OB0.ref = 10; OB1.ref = 10; OB0.name = "ob0"; OB1.name = "ob1";
#ifdef MODE_L2R
  call_list[X] = &E0;
#else
  if (IN.nx >= 1) call_list[X] = &E0;
#endif
  if (IN.nx >= 2) E0.next = &E1;
  if (IN.nx >= 3) E1.next = &E2;
  if (IN.ny >= 1) call_list[Y] = &E3;
  call_list_free = &F0; F0.next = &F1; F1.next = 0;
#if defined(MODE_L2) || defined(MODE_L2R)
  /* the sweep uses call_out_time only as slot index and in differences: concrete value whose next second is slot X */
  __CPROVER_assume (IN.cot == COT_SWEEP);
  IN.cot = COT_SWEEP;
#endif
  call_out_time = IN.cot; current_time = IN.cot + IN.lag; unique = 10; num_call = 6;
  cand[0] = X; cand[1] = Y; cand[2] = X;
  for (i = 0; i < 4; i++) due0[i] = on_wheel[i] ? due_of (EP (i)) : -1;
}

#ifdef MODE_L2R
static int act_k, act_kind; static time_t act_delay;
static void callback_action (void)
{
  svalue_t fun; int k = IN.k;
  act_kind = IN.act; act_k = k;
  __CPROVER_assume (k >= 1 && k <= 3 && on_wheel[k] && !released[k]);
  switch (IN.act)
    {
    case 0:
#ifdef DELAY
      __CPROVER_assume (IN.delay == (DELAY));
      IN.delay = (DELAY);       /* concrete per run: keeps the target slot concrete (L1 covers all delays symbolically) */
#else
      __CPROVER_assume (IN.delay >= -1 && IN.delay <= 2 * N + 2);
#endif
      act_delay = IN.delay; fun.type = T_STRING; fun.subtype = 0; fun.u.string = name_new;
      cand[2] = (int) ((current_time + (IN.delay < 1 ? 1 : IN.delay)) & (N - 1));
      act_ret = new_call_out (&OB1, &fun, (time_t) IN.delay, 0, 0);
      break;
    case 1: act_ret = remove_call_out (OBP (IN.owner[k]), NAME (k)); break;
    case 2: act_ret = remove_call_out_by_handle (EP (k)->handle); break;
    case 3: act_ret = find_call_out_by_handle (EP (k)->handle); break;
    default: act_ret = find_call_out (OBP (IN.owner[k]), NAME (k)); break;
    }
  act_done = 1;
  VERIF_WITNESS ("callback_returned");
}
#endif

void harness (void)
{
  int i;
  verif_in_init ();
#ifdef ACT
  __CPROVER_assume (IN.act == ACT);
  IN.act = ACT;
#endif
#ifdef MODE_L2R
  /* one second is swept and its first entry E0 (live owner OB0, due now) certainly fires: concrete, so that symex knows
     the scripted callback runs exactly once (otherwise it explores it at every firing and exhausts the free list) */
  __CPROVER_assume (IN.lag == 1 && IN.nx >= 1 && IN.delta[0] == 1 && IN.owner[0] == 0 && IN.dest[0] == 0);
  IN.lag = 1; IN.delta[0] = 1; IN.owner[0] = 0; IN.dest[0] = 0;
  if (IN.nx < 1) IN.nx = 1;
#endif
  setup ();
#ifdef MODE_L1
  {
    svalue_t fun; int h; time_t d = IN.delay, want;
    __CPROVER_assume (IN.delay >= -2 && IN.delay <= 3 * N + 1);
    fun.type = T_STRING; fun.subtype = 0; fun.u.string = name_new;
    want = current_time + (d < 1 ? 1 : d);
    cand[2] = (int) (want & (N - 1));
    h = new_call_out (&OB0, &fun, d, 0, 0);
    VERIF_ASSERT ("C10.L1.new_entry_due_on_time", due_of (&F0) == want);
    for (i = 0; i < 4; i++)
      if (on_wheel[i]) VERIF_ASSERT ("C10.L1.bystanders_keep_due", due_of (EP (i)) == due0[i]);
    VERIF_ASSERT ("C10.L1.inv", wheel_inv ());
    VERIF_ASSERT ("C10.L1.handle", F0.handle == h && (h & (N - 1)) == cand[2]);
    VERIF_ASSERT ("C10.L1.find_by_handle", find_call_out_by_handle (h) == (int) (want - current_time));
    VERIF_ASSERT ("C10.L1.owner_ref", F0.ob == &OB0 && OB0.ref == 11 && F0.function.s == name_new);
    if (IN.nx == 3 && cand[2] == IN.x) VERIF_WITNESS ("insert_into_3_entry_slot");
    if (d >= N) VERIF_WITNESS ("beyond_one_revolution");
    VERIF_WITNESS ("end");
  }
#endif
#if defined(MODE_L2) || defined(MODE_L2R)
  {
    int live_expected = 0, nfired = 0, last = -1;
    __CPROVER_assume (IN.lag >= 1);
#ifdef MODE_L2R
    __CPROVER_assume (IN.lag == 1 && IN.nx >= 1 && IN.nx <= L2R_NX && IN.delta[0] == 1);
#ifdef L2R_NY
    __CPROVER_assume (IN.ny <= L2R_NY);
#endif
    __CPROVER_assume (!(OBP (IN.owner[0])->flags & O_DESTRUCTED));
#endif
    call_out ();
    VERIF_WITNESS ("sweep_returned");
    VERIF_ASSERT ("C10.L2.time_advanced", call_out_time == current_time);
#ifdef MODE_L2R
    VERIF_ASSERT ("C10.L2R.callback_ran", act_done && fired[0] == 1);
#endif
    for (i = 0; i < 4; i++)
      {
        int removed = 0;
        if (!on_wheel[i]) continue;
#ifdef MODE_L2R
        if ((act_kind == 1 || act_kind == 2) && act_k == i)
          {
            removed = 1;
            VERIF_ASSERT ("C10.L2R.removed_never_fires", fired[i] == 0 && released[i] == 1 && due_of (EP (i)) == -1);
            VERIF_ASSERT ("C10.L2R.remove_reports_time_left", act_ret == (int64_t) (due0[i] - current_time));
          }
        if ((act_kind == 3 || act_kind >= 4) && act_k == i)
          VERIF_ASSERT ("C10.L2R.find_reports_time_left", act_ret == (int64_t) (due0[i] - current_time));
#endif
        if (removed) continue;
        if (due0[i] <= current_time)
          {
            VERIF_ASSERT ("C10.L2.due_entry_released_once", released[i] == 1 && due_of (EP (i)) == -1);
#ifdef WITH_ARGS
            VERIF_ASSERT ("C06.callout.argument_array_released_exactly_once", vs_released[i] == 1);
#endif
            VERIF_ASSERT ("C10.L2.fires_at_most_once", fired[i] <= 1);
            if (OBP (IN.owner[i])->flags & O_DESTRUCTED) VERIF_ASSERT ("C10.L2.destructed_owner_dropped", fired[i] == 0);
            else live_expected++;
            nfired += fired[i];
          }
        else
          {
            VERIF_ASSERT ("C10.L2.not_due_untouched", released[i] == 0 && fired[i] == 0 && due_of (EP (i)) == due0[i]);
#ifdef WITH_ARGS
            VERIF_ASSERT ("C06.callout.pending_call_keeps_its_arguments", vs_released[i] == 0);
#endif
          }
      }
    VERIF_ASSERT ("C10.L2.every_live_due_entry_fired_exactly_once", nfired + err_fires == live_expected);
    for (i = 0; i < 8; i++)
      if (i < n_fire && fire_seq[i] < 4)
        {
          if (last >= 0) VERIF_ASSERT ("C10.L2.fire_order", due0[last] < due0[fire_seq[i]] || (due0[last] == due0[fire_seq[i]] && last < fire_seq[i]));
          last = fire_seq[i];
        }
    VERIF_ASSERT ("C10.L2.inv", wheel_inv ());
#ifdef MODE_L2R
    if (act_kind == 0)
      {
        time_t want = current_time + (act_delay < 1 ? 1 : act_delay);
        VERIF_ASSERT ("C10.L2R.reentrant_entry_not_fired_in_same_sweep", fired[4] == 0 && released[4] == 0);
        VERIF_ASSERT ("C10.L2R.reentrant_entry_due_on_time", due_of (&F0) == want);
        if (act_delay == N) VERIF_WITNESS ("reentrant_delay_one_revolution");
        VERIF_WITNESS ("reentrant_insert");
      }
    if (act_kind == 1) VERIF_WITNESS ("reentrant_remove");
    if (act_kind == 3) VERIF_WITNESS ("reentrant_find");
#endif
    if (nfired >= 2) VERIF_WITNESS ("two_fired");
    if (err_fires >= 1) VERIF_WITNESS ("error_branch");
    VERIF_WITNESS ("end");
  }
#endif
#ifdef MODE_L3
  {
    int k = IN.k, r = 0, first = -1;
    __CPROVER_assume (k >= 0 && k <= 3 && on_wheel[k]);
    switch (IN.act)
      {
      case 0: r = remove_call_out_by_handle (EP (k)->handle); break;
      case 1: r = find_call_out_by_handle (EP (k)->handle); break;
      case 2: r = remove_call_out (OBP (IN.owner[k]), NAME (k)); break;
      case 3: r = find_call_out (OBP (IN.owner[k]), NAME (k)); break;
      case 4: r = remove_call_out_by_handle (N * 9 + IN.x); break;            /* unknown handle */
      default: remove_all_call_out (OBP (IN.owner[k])); break;
      }
    if (IN.act >= 0 && IN.act <= 3) VERIF_ASSERT ("C10.L3.reports_time_left", r == (int) (due0[k] - current_time));
    if (IN.act == 4) VERIF_ASSERT ("C10.L3.unknown_handle", r == -1);
    for (i = 0; i < 4; i++)
      {
        int gone;
        if (!on_wheel[i]) continue;
        if (IN.act == 0 || IN.act == 2) gone = (i == k);
        else if (IN.act >= 5) gone = (IN.owner[i] == IN.owner[k]) || (OBP (IN.owner[i])->flags & O_DESTRUCTED);
        else gone = 0;
        if (gone) VERIF_ASSERT ("C10.L3.removed_gone_released_once", due_of (EP (i)) == -1 && released[i] == 1);
        else VERIF_ASSERT ("C10.L3.others_keep_due", due_of (EP (i)) == due0[i] && released[i] == 0);
      }
    VERIF_ASSERT ("C10.L3.inv", wheel_inv ());
    VERIF_ASSERT ("C10.L3.nothing_fires", n_fire == 0);
    if ((IN.act == 0 || IN.act == 2) && k == 1 && IN.nx == 3) VERIF_WITNESS ("remove_middle_of_three");
    if (IN.act >= 5) VERIF_WITNESS ("remove_all");
    VERIF_WITNESS ("end");
  }
#endif
}
