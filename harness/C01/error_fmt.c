/* C01(c): the error raising primitives themselves.  Real: src/error_context.c error() and bad_argument().
 * (1) error(): vsnprintf may report ANY length (it returns the length the full message would have had): every access to
 *     the local message buffer must stay inside it.
 * (2) bad_argument(): the rendered offending value is attacker-controlled text; it must reach error() as DATA, never as
 *     the format string: the model of error() flags a call whose format contains a conversion but has no arguments.
 */
#include "src/error_context.c"
#include "verif.h"
#define IN_FIELDS(S,A) S(int, vret) A(char, txt, 5)
#include "verif_in.h"
int verif_handler_reached;
#ifdef MODE_ERROR
int vsnprintf (char *buf, size_t n, const char *fmt, va_list ap)
{
  (void) fmt; (void) ap;
  __CPROVER_assume (IN.vret >= -1);
  if (n > 0) buf[0] = 'x';
  if (n > 1) buf[1] = 0;
  return IN.vret;
}
void harness (void)
{
  verif_in_init ();
  error ("%s", "x");
}
#endif
