/* C01: implode(array, delimiter) never writes outside its result.  Real: lib/lpc/array.c implode_string.
 * Array of 3 elements whose KINDS (string / non-string) are concrete per run (pattern PAT, bit i = element i is a
 * string); string contents and the delimiter are symbolic (1 byte each, so the allocation size is concrete).
 */
#include "all_types.h"
#include "verif.h"
#define IN_FIELDS(S,A) A(char, ch, 3) S(char, del) A(int64_t, num, 3)
#include "verif_in.h"
void verif_on_error (void) { }
void harness (void)
{
  /* typed array block (hook VERIF_ARRAY_ITEMS): all three elements are read precisely */
  static array_t SA; array_t *a = &SA; char d[2]; char *r; int i, nstr = 0; size_t want = 0, k = 0;
  static char s0[2], s1[2], s2[2]; char *ss[3] = { s0, s1, s2 };
  verif_in_init ();
  __CPROVER_assume (IN.del != 0);
  d[0] = IN.del; d[1] = 0;
  a->ref = 1; a->size = 3;
  for (i = 0; i < 3; i++)
    if ((PAT >> i) & 1)
      { __CPROVER_assume (IN.ch[i] != 0); ss[i][0] = IN.ch[i]; ss[i][1] = 0; a->item[i].type = T_STRING; a->item[i].subtype = STRING_CONSTANT; a->item[i].u.string = ss[i]; nstr++; }
    else
      { a->item[i].type = T_NUMBER; a->item[i].subtype = 0; a->item[i].u.number = IN.num[i]; }
  r = implode_string (a, d, 1);
  /* reference: the strings joined by the delimiter, non-strings skipped */
  want = nstr ? (size_t) nstr + (size_t) (nstr - 1) : 0;
  VERIF_ASSERT ("C01.implode.result_length", strlen (r) == want);
  for (i = 0; i < 3; i++)
    if ((PAT >> i) & 1)
      {
        if (k) { VERIF_ASSERT ("C01.implode.delimiter_between_strings", r[k] == IN.del); k++; }
        VERIF_ASSERT ("C01.implode.strings_in_order", r[k] == IN.ch[i]); k++;
      }
  VERIF_WITNESS ("end");
}
