#include "all_types.h"
#include "verif.h"
void error_handler (const char *err) { (void) err; VERIF_WITNESS ("error_handler_reached"); VERIF_END_PATH (); for (;;) ; }
void verif_on_error (void) { }
