import os, sys, importlib.util
_sp = importlib.util.spec_from_file_location('vmjobs', os.path.join(os.path.dirname(os.path.abspath(__file__)), '..', 'vm', 'vmjobs.py'))
vm = importlib.util.module_from_spec(_sp); _sp.loader.exec_module(vm)

INDEXED = ['STR', 'ARR', 'BUF']
EX = [x for x in os.environ.get('VM_EXTRA', '').split(',') if x]
def jobs(tier, ctx):
    out = []
    def add(*a, **k):
        j = vm.step_job(ctx, 'step', *a, **k)
        if j: out.append(j)
    for c in ('STR', 'BUF'):
        add('F_INDEX', ['NUM', c]); add('F_RINDEX', ['NUM', c])
    # arrays: a symbolic element pointer makes the copied type tag symbolic and forks the whole release code (no verdict
    # in 200 s), so array (size, index) pairs are concrete per run, including the boundary and 32-bit-truncation indices;
    # element values and everything else stay symbolic.  Strings and buffers above keep the index fully symbolic.
    # (a) typed array blocks (hook VERIF_ARRAY_ITEMS, DESIGN corrections 14): the length is concrete per run, the index is split into
    #     classes that together cover all of int64: every in-range position (concrete), all negative, all >= length (symbolic); an access outside 0..n-1 that does not raise an LPC error is reported by the index oracle (inside
    #     the 8-element block it would not be a CBMC bounds failure)
    for (op, rev) in (('F_INDEX', 0), ('F_RINDEX', 1)):
        for ln in ((0, 2) if tier == 'quick' else (0, 1, 2, 3)):
            # quick: the in-range positions and concrete out-of-range probes (the symbolic out-of-range classes cost 200 s / 11 GB
            # each and run in C03's thorough tier)
            probes = [('i%s' % str(k).replace('-', 'm'), ['NUMK0=%dLL' % k]) for k in (-1, ln, ln + 1, 4294967296, 4294967296 + ln - 1, -4294967296)]
            for (tag, d) in ([c for c in vm.index_classes(ln, rev) if c[0].startswith('pos')] + probes):
                j = vm.step_job(ctx, 'step', op, ['NUM', 'ARRM'], oracle=['INDEXREF'], extra_defs=['LENK1=%d' % ln, 'INDEXREF_REVERSE=%d' % rev] + d, tag='typed.len%d.%s' % (ln, tag), typed_arrays=8, mem=(11 if tag in ('below', 'above') else 4), timeout=(1500 if tag in ('below', 'above') else 300))
                if j:
                    j['opt_witness'] = j['opt_witness'] + ['index_in_range', 'index_out_of_range']
                    out.append(j)
    # (byte-block arrays from the real allocator with concrete (size, index) pairs were the first encoding of these jobs: they need
    #  > 14 GB each and are gone; what they added - CBMC bounds failures exact to the allocated size - is replaced by the
    #  index oracle above: an access outside 0..n-1 that does not raise an error is reported)
    # element lvalues (a[i] = ..., a[<i] = ...): the index stays fully symbolic (no element is read by these opcodes)
    for op in ('F_INDEX_LVALUE', 'F_RINDEX_LVALUE'):
        for c in ('LVARR', 'LVSTR', 'LVBUF'):
            add(op, ['NUM', c], oracle=['LVAL'])
    # ranges on strings and buffers: both indices fully symbolic int64
    for op in ('F_NN_RANGE', 'F_RN_RANGE', 'F_NR_RANGE', 'F_RR_RANGE'):
        for c in ('STR', 'BUF'):
            add(op, ['NUM', 'NUM', c])
    for op in ('F_NE_RANGE', 'F_RE_RANGE'):
        for c in ('STR', 'BUF'):
            add(op, ['NUM', c])
    # arithmetic / comparison / bit operators on every scalar pairing the switch distinguishes
    pairs = [('NUM', 'NUM'), ('NUM', 'REAL'), ('REAL', 'NUM'), ('STR', 'STR'), ('STR', 'NUM'), ('NUM', 'STR'), ('BUF', 'BUF'), ('ARRM', 'NUM')]
    ops2 = ['F_ADD', 'F_SUBTRACT', 'F_MULTIPLY', 'F_DIVIDE', 'F_MOD', 'F_EQ', 'F_NE', 'F_LT', 'F_LE', 'F_GT', 'F_GE', 'F_AND', 'F_OR', 'F_XOR', 'F_LSH', 'F_RSH']
    for op in ops2:
        for (a, b) in (pairs if (tier != 'quick' or op == 'F_ADD') else (pairs[:3] if op in ('F_DIVIDE', 'F_MOD') else (pairs[:1] + pairs[3:4] if op in ('F_LT', 'F_EQ') else []))):
            lk = (['LENK0=2'] if a == 'ARRM' else []) + (['LENK1=2'] if b == 'ARRM' else [])
            add(op, [a, b], checks=(['--signed-overflow-check'] if op in ('F_DIVIDE', 'F_MOD') else []), extra_defs=lk)
    for op in ('F_NEGATE', 'F_NOT', 'F_COMPL', 'F_POP_VALUE'):
        for a in (('NUM', 'REAL', 'STR', 'ARRM') if tier != 'quick' else ('NUM', 'STR')):
            add(op, [a], extra_defs=(['LENK0=2'] if a == 'ARRM' else []))
    if tier != 'quick':
        for c in ('NUM', 'REAL', 'OBJ'):
            add('F_INDEX', ['NUM', c])
        for c in INDEXED:
            add('F_INDEX', ['STR', c])
    # implode(array, delimiter): element kinds (string / non-string) concrete per run, contents symbolic; typed array block
    for pat in ((1, 2, 5, 6, 7) if tier == 'quick' else range(8)):
        out.append(dict(name='implode.pat%d' % pat, srcs=['@harness/C01/implode.c', 'lib/lpc/array.c', 'src/stralloc.c', 'lib/misc/hash.c', 'lib/lpc/svalue.c'],
                        stubs=['@world/world_base.c', '@world/libc_models.c', '@world/vm_world.c', '@world/world_err.c', '@world/typed_arrays.c', '@harness/vm/stubs.c'],
                        defs=['PAT=%d' % pat, 'VERIF_ARRAY_ITEMS=8'], unwind=6, nobody_ok=['*'], targets=['implode_string'], timeout=300, mem_gb=6,
                        cuts=['dealloc_mapping', 'dealloc_class', 'dealloc_funp', 'free_mapping', 'free_class'],
                        desc='implode_string on a 3-element array whose elements are strings exactly at the positions of bit pattern %d (others numbers): the result is the strings joined by the delimiter, nothing written outside the result buffer' % pat,
                        inputs='string bytes, delimiter byte, numbers', assumptions=['1-byte strings and delimiter (the allocation size is then concrete)', 'typed array block of 8 elements (DESIGN corrections 14)']))
    out.append(dict(name='error.msg_buffer', srcs=['@harness/C01/error_fmt.c'], stubs=['@world/world_base.c', '@world/libc_models.c', '@harness/C01/error_stubs.c'],
                    defs=['MODE_ERROR=1'], cuts=['error_handler', 'mudlib_error_handler', 'debug_message_with_location'], unwind=4, targets=['error'], timeout=200, mem_gb=4,
                    desc='real error() with vsnprintf reporting any length >= -1: msg[len-1], msg[len], msg[len+1] stay inside the 8 KiB buffer',
                    inputs='return value of vsnprintf', assumptions=['vsnprintf is a stub returning any int >= -1 (its man-page contract)']))
    return out
