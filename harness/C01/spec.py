import os, sys, importlib.util
_sp = importlib.util.spec_from_file_location('vmjobs', os.path.join(os.path.dirname(os.path.abspath(__file__)), '..', 'vm', 'vmjobs.py'))
vm = importlib.util.module_from_spec(_sp); _sp.loader.exec_module(vm)

INDEXED = ['STR', 'ARR', 'BUF']
EX = [x for x in os.environ.get('VM_EXTRA', '').split(',') if x]
def jobs(tier, ctx):
    out = []
    def add(*a, **k):
        j = vm.step_job(ctx, 'step', *a, **k)
        if j: out.append(j)
    for c in ('STR', 'BUF'):
        add('F_INDEX', ['NUM', c]); add('F_RINDEX', ['NUM', c])
    # arrays: a symbolic element pointer makes the copied type tag symbolic and forks the whole release code (no verdict
    # in 200 s), so array (size, index) pairs are concrete per run, including the boundary and 32-bit-truncation indices;
    # element values and everything else stay symbolic.  Strings and buffers above keep the index fully symbolic.
    idx = [-1, 0, 1, 2, 3, 4294967296, 4294967297, -4294967295] if tier == 'quick' else [-2147483649, -1, 0, 1, 2, 3, 2147483648, 4294967295, 4294967296, 4294967297, 4294967298, -4294967295, 9223372036854775807]
    for op in ('F_INDEX', 'F_RINDEX'):
        for ln in ((2,) if tier == 'quick' else (0, 1, 2, 3)):
            for k in idx:
                add(op, ['NUM', 'ARR'], extra_defs=['NUMK0=%dLL' % k, 'LENK1=%d' % ln], tag='len%d.i%s' % (ln, str(k).replace('-', 'm')))
    # element lvalues (a[i] = ..., a[<i] = ...): the index stays fully symbolic (no element is read by these opcodes)
    for op in ('F_INDEX_LVALUE', 'F_RINDEX_LVALUE'):
        for c in ('LVARR', 'LVSTR', 'LVBUF'):
            add(op, ['NUM', c], oracle=['LVAL'])
    if tier != 'quick':
        for c in ('NUM', 'REAL', 'OBJ'):
            add('F_INDEX', ['NUM', c])
        for c in INDEXED:
            add('F_INDEX', ['STR', c])
    return out
