/* C13(3): bounded buffering of the network reader.  Real: src/comm.c get_user_data (prologue: space computation,
 * compaction, over-long line discard) up to the socket read.
 * For EVERY buffer position (0 <= text_start <= text_end < MAX_TEXT, fully symbolic) the number of bytes the reader asks
 * the socket for must fit: on a TELNET port each received byte may expand to 3 bytes (proved for the decoder in
 * decoder_step), so 3*len bytes plus the terminator must fit behind text_end; on an ASCII port len bytes plus terminator.
 */
#define memmove(d, s, n) verif_memmove_nocopy (d, s, n)      /* the contents of the compaction are not the subject here */
#include "src/comm.c"
#undef memmove
#include "verif.h"
#define IN_FIELDS(S,A) S(int64_t, start) S(int64_t, end) S(int, port)
#include "verif_in.h"
void *verif_memmove_nocopy (void *d, const void *s, size_t n) { (void) s; VERIF_ASSERT ("C13.reader.compaction_inside_buffer", n <= MAX_TEXT); return d; }
void verif_on_error (void) { }
static interactive_t UIP; static object_t UOB; static int recv_calls;
ssize_t recv (int fd, void *buf, size_t len, int flags)
{
  (void) fd; (void) buf; (void) flags;
  recv_calls++;
  /* (an ASCII port with a full buffer asks for 0 bytes and then treats the 0 result as end of file: the over-long
     line costs the connection; the statement does not forbid that, so it is asserted for TELNET ports only) */
  if (UIP.connection_type == PORT_TELNET) VERIF_ASSERT ("C13.reader.asks_for_at_least_one_byte", len >= 1);
  VERIF_ASSERT ("C13.reader.read_fits_local_buffer", len < MAX_TEXT);
  if (UIP.connection_type == PORT_TELNET)
    VERIF_ASSERT ("C13.reader.telnet_read_fits_after_3x_expansion", UIP.text_end >= 0 && (int64_t) UIP.text_end + 3 * (int64_t) len + 1 <= MAX_TEXT);
  else
    VERIF_ASSERT ("C13.reader.ascii_read_fits", UIP.text_end >= 0 && (int64_t) UIP.text_end + (int64_t) len + 1 <= MAX_TEXT);
  VERIF_ASSERT ("C13.reader.positions_consistent", UIP.text_start >= 0 && UIP.text_start <= UIP.text_end);
  VERIF_WITNESS ("socket_read_requested");
  errno = EWOULDBLOCK;
  return -1;
}
void harness (void)
{
  verif_in_init ();
  __CPROVER_assume (IN.start >= 0 && IN.start <= IN.end && IN.end < MAX_TEXT);
  __CPROVER_assume (IN.port == PORT);
  UIP.ob = &UOB; UOB.interactive = &UIP; UIP.connection_type = PORT; UIP.fd = 9; UIP.iflags = 0;
  UIP.text_start = (ptrdiff_t) IN.start; UIP.text_end = (ptrdiff_t) IN.end;
  get_user_data (&UIP, 0);
  VERIF_ASSERT ("C13.reader.read_attempted_once", recv_calls == 1);
  if (IN.end > MAX_TEXT - 64 && IN.start == 0) VERIF_WITNESS ("overlong_line_discarded");
  VERIF_WITNESS ("end");
}
