/* C13(1)+(2): telnet decoder copy_chars() as an inductive step.
 * Real: src/comm.c copy_chars (static; reached by #include).
 * Pre-state: any decoder state satisfying Inv(K): state in the 8 machine states (+CR flag in DATA),
 * 0 <= sb_pos <= K, iflags arbitrary, sb_buf arbitrary.  Input: NB arbitrary bytes.
 * MODE_STEP : memory safety, Inv(K) after, output <= 3 bytes per input byte, no negotiation byte in output.
 * MODE_SPLIT: copy_chars(b0 b1) == copy_chars(b0); copy_chars(b1)  (output bytes, final state, side calls).
 */
#include "src/comm.c"
#include "verif.h"

#ifndef NB
#define NB 1
#endif
#ifndef K
#define K SB_SIZE
#endif
#define IN_FIELDS(S,A) S(int, state) S(int, sb_pos) S(int, iflags) A(unsigned char, sb, SB_SIZE) A(unsigned char, from, NB) S(unsigned, probe)
#include "verif_in.h"

extern int g_addmsg_calls, g_flush_calls, g_apply_calls; extern unsigned g_side_hash;

static int inv (interactive_t *ip)
{
  int st = ip->state & TS_STATE_MASK;
  if (ip->state & ~(TS_STATE_MASK | TS_CR_SEEN)) return 0;
  if (st > TS_SB_IAC) return 0;
  if ((ip->state & TS_CR_SEEN) && st != TS_DATA) return 0;
  /* sb_pos is meaningful only inside a sub-negotiation (it is reset by IAC SB and never initialised before) */
  if ((st == TS_SB || st == TS_SB_IAC) && (ip->sb_pos < 0 || ip->sb_pos > K)) return 0;
  return 1;
}

static interactive_t ipA, ipB;
static object_t obA;

static void setup (interactive_t *ip)
{
  int i;
  ip->ob = &obA;
#ifdef STATE0
  /* case split over the machine state (the jobs together cover the 8 states, CR flag symbolic) */
  __CPROVER_assume ((IN.state & TS_STATE_MASK) == STATE0);
  IN.state = (IN.state & ~TS_STATE_MASK) | STATE0;
#endif
  ip->state = IN.state; ip->sb_pos = IN.sb_pos; ip->iflags = IN.iflags;
  for (i = 0; i < SB_SIZE; i++) ip->sb_buf[i] = IN.sb[i];
}

void harness (void)
{
  unsigned char to[3 * NB + 2];
  size_t n;
  verif_in_init ();
  setup (&ipA);
  __CPROVER_assume (inv (&ipA));
#ifdef MODE_STEP
  {
    int st0 = ipA.state & TS_STATE_MASK;
    n = copy_chars (IN.from, to, NB, &ipA);
    VERIF_ASSERT ("C13.decoder.inv_after", inv (&ipA));
    VERIF_ASSERT ("C13.decoder.out_le_3x", n <= 3 * NB);
#if NB == 1
    /* negotiation and sub-negotiation bytes never reach the command text */
    if (st0 != TS_DATA && !(st0 == TS_IAC && IN.from[0] == IAC))
      VERIF_ASSERT ("C13.decoder.no_negotiation_byte_in_text", n == 0);
    if (st0 == TS_DATA && IN.from[0] == IAC)
      VERIF_ASSERT ("C13.decoder.iac_not_in_text", n == 0);
    if (st0 == TS_DATA && IN.from[0] != IAC && IN.from[0] != '\r' && !(IN.state & TS_CR_SEEN))
      VERIF_ASSERT ("C13.decoder.data_byte_delivered", n == 1 && to[0] == IN.from[0]);
    if (st0 == TS_SB && IN.from[0] != IAC) VERIF_WITNESS ("sb_data");
    if (st0 == TS_SB_IAC && IN.from[0] == SE) VERIF_WITNESS ("sb_end");
    if (st0 == TS_DATA && n == 3) VERIF_WITNESS ("crlf");
#endif
    VERIF_WITNESS ("end");
  }
#endif
#ifdef MODE_SPLIT
  {
    unsigned char to2[3 * NB + 2];
    size_t n2 = 0, i;
    int a1, f1, p1; unsigned h1;
    setup (&ipB);
    n = copy_chars (IN.from, to, NB, &ipA);
    a1 = g_addmsg_calls; f1 = g_flush_calls; p1 = g_apply_calls; h1 = g_side_hash;
    g_addmsg_calls = g_flush_calls = g_apply_calls = 0; g_side_hash = 0;
    for (i = 0; i < NB; i++)
      n2 += copy_chars (IN.from + i, to2 + n2, 1, &ipB);
    VERIF_ASSERT ("C13.split.same_count", n == n2);
    for (i = 0; i < 3 * NB; i++)
      if (i < n) VERIF_ASSERT ("C13.split.same_bytes", to[i] == to2[i]);
    VERIF_ASSERT ("C13.split.same_state", ipA.state == ipB.state && ipA.sb_pos == ipB.sb_pos && ipA.iflags == ipB.iflags);
    { unsigned j = IN.probe; __CPROVER_assume (j < SB_SIZE); VERIF_ASSERT ("C13.split.same_sb_buf", ipA.sb_buf[j] == ipB.sb_buf[j]); }
    VERIF_ASSERT ("C13.split.same_side_effects", a1 == g_addmsg_calls && f1 == g_flush_calls && p1 == g_apply_calls && h1 == g_side_hash);
    VERIF_WITNESS ("end");
  }
#endif
}
