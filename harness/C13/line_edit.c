/* C13(4): line editing.  Real: src/comm.c telnet_neg (static, via #include).
 * For every input line of <= NB bytes (any values, NUL-terminated): backspace/delete erase the previous character or
 * are ignored on an empty line; the output equals a reference written from the statement, never starts before the
 * output buffer and is never longer than the input.
 */
#include "src/comm.c"
#include "verif.h"
#ifndef NB
#define NB 5
#endif
#define IN_FIELDS(S,A) A(char, line, NB + 1)
#include "verif_in.h"
void verif_on_error (void) { }
void harness (void)
{
  char out[NB + 2], ref[NB + 2]; int i, n = 0, erased = 0;
  verif_in_init ();
  IN.line[NB] = 0;
  for (i = 0; i <= NB; i++)
    {
      char c = IN.line[i];
      if (c == 0) break;
      if (c == '\b' || c == 0x7f) { if (n > 0) n--; erased = 1; }
      else ref[n++] = c;
    }
  ref[n] = 0;
  telnet_neg (out, IN.line);            /* out is a whole local array: a write before it is an out-of-bounds failure */
  for (i = 0; i <= NB; i++) if (i <= n) VERIF_ASSERT ("C13.edit.backspace_delete_edit_the_line", out[i] == ref[i]);
  if (erased && n > 0) VERIF_WITNESS ("erased_inside_line");
  if (erased && n == 0) VERIF_WITNESS ("erase_on_empty_line");
  VERIF_WITNESS ("end");
}
