BASE = ['@world/world_base.c', '@world/libc_models.c']
CUTS = ['add_message', 'add_vmessage', 'flush_message']

def jobs(tier, ctx):
    J = []
    for k in (99, 100):
        J.append(dict(name='decoder_step.K%d' % k, alt_group='decoder_step', srcs=['@harness/C13/decoder_step.c'],
                      stubs=['@harness/C13/stubs_decoder.c'] + BASE, cuts=CUTS, defs=['MODE_STEP=1', 'NB=1', 'K=%d' % k],
                      unwind=104, targets=['copy_chars'], timeout=900, mem_gb=8,
                      desc='copy_chars: one arbitrary byte from any decoder state with sb_pos<=%d: memory safe, invariant kept, <=3 output bytes, no negotiation byte in text' % k,
                      inputs='state, sb_pos, iflags, sb_buf[100], 1 input byte',
                      assumptions=['output path (add_message/flush_message) and LPC applies cut to counting stubs in decoder harnesses',
                                   'decoder invariant: 8 machine states, CR flag only in DATA, 0<=sb_pos<=K for K=99 or K=100 (the check holds if one K is inductive and safe)']))
    # whole-call vs byte-by-byte equivalence costs > 10 min: thorough tier only (the inductive step above is the quick decider)
    for nb in (() if tier == 'quick' else (2,)):
      # machine state 7 (TS_SB_IAC) does not finish in 4000 s and is left out; state 6 (TS_SB) takes ~800 s
      for st in range(7):
        J.append(dict(name='decoder_split.n%d.state%d' % (nb, st), srcs=['@harness/C13/decoder_step.c'],
                  stubs=['@harness/C13/stubs_decoder.c'] + BASE, cuts=CUTS, defs=['MODE_SPLIT=1', 'NB=%d' % nb, 'K=99', 'STATE0=%d' % st],
                  unwind=104, targets=['copy_chars'], timeout=(1500 if st < 6 else 4000), mem_gb=6,
                  desc='copy_chars(b0..b%d) in one call vs byte-by-byte from the same arbitrary decoder state with machine state %d: same output, state and side calls' % (nb - 1, st),
                  inputs='CR flag, sb_pos, iflags, sb_buf[100], %d input bytes' % nb))
    ne = 4 if tier == 'quick' else 6
    J.append(dict(name='line_edit.n%d' % ne, srcs=['@harness/C13/line_edit.c'], stubs=['@harness/C13/stubs_decoder.c'] + BASE, cuts=CUTS, defs=['NB=%d' % ne], unwind=ne + 3,
                  targets=['telnet_neg'], timeout=300, mem_gb=6, opt_witness=['erased_inside_line', 'erase_on_empty_line'],
                  desc='telnet_neg on every line of <= %d bytes: backspace/delete semantics vs a reference, no write before the output buffer' % ne,
                  inputs='%d line bytes' % ne, assumptions=[]))
    for (pn, pv) in (('telnet', 'PORT_TELNET'), ('ascii', 'PORT_ASCII')):
        J.append(dict(name='reader_budget.' + pn, srcs=['@harness/C13/reader_budget.c'], stubs=['@harness/C13/stubs_decoder.c'] + BASE, cuts=CUTS, defs=['PORT=' + pv], unwind=4, nobody_ok=['*'],
                      targets=['get_user_data'], timeout=300, mem_gb=8, opt_witness=['overlong_line_discarded', 'socket_read_requested'],
                      desc='get_user_data (%s port) for every buffer position 0 <= text_start <= text_end < MAX_TEXT: the read it requests fits behind text_end (x3 for telnet expansion), over-long data is discarded, never overflowed' % pn,
                      inputs='text_start, text_end over the whole buffer', assumptions=['compaction memmove replaced by a size check (contents not the subject)', 'the socket read itself returns EWOULDBLOCK (the decoder is decided by decoder_step)']))
    return J
