/* stubs for the decoder harnesses: output path and LPC applies are cut (C14 / C09 decide them);
 * each stub checks that what it is handed is a readable NUL-terminated string. */
#include <config.h>
#include "std.h"
#include "lpc/object.h"
#include "comm.h"
#include "interpret.h"
#include "apply.h"
#include "verif.h"
int g_addmsg_calls, g_flush_calls, g_apply_calls; unsigned g_side_hash;
static void touch_string (const char *s)
{
  int i;
  for (i = 0; i < SB_SIZE + 2 && s[i]; i++) g_side_hash += (unsigned char) s[i] + 1000u;
}
void add_message (object_t *who, char *data) { (void) who; g_addmsg_calls++; touch_string (data); }
void add_vmessage (object_t *who, char *format, ...) { (void) who; (void) format; g_addmsg_calls++; }
int flush_message (interactive_t *ip) { (void) ip; g_flush_calls++; return 1; }
svalue_t *apply (const char *fun, object_t *ob, int n, int origin) { (void) fun; (void) ob; (void) n; (void) origin; g_apply_calls++; return 0; }
void copy_and_push_string (const char *s) { touch_string (s); }
void push_number (int64_t n) { g_side_hash += (unsigned) n + 7u; }
