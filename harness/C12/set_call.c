/* C12: the flag word LPC passes to input_to()/get_char() can only set the three documented input bits; it cannot touch the
 * connection's scheduling flags (HAS_CMD_TURN, CMD_IN_BUF), nor NET_DEAD / CLOSING.  Real: src/comm.c set_call (and
 * set_telnet_single_char).  The user is a network user (slot 1; slot 0 is the console), output is a counting stub.
 */
#include "src/comm.c"
#include "verif.h"
#define IN_FIELDS(S,A) S(int, flags) S(int, iflags0) S(int, has_input_to)
#include "verif_in.h"
void verif_on_error (void) { }
static interactive_t U, CON; static object_t OB; static sentence_t S0, S1;
void harness (void)
{
  int r, before, allowed = I_NOECHO | I_NOESC | I_SINGLE_CHAR;
  verif_in_init ();
  all_users = (interactive_t **) malloc (2 * sizeof (interactive_t *));
  __CPROVER_assume (all_users != 0);
  all_users[0] = &CON; all_users[1] = &U; max_users = 2;
  OB.interactive = &U; OB.name = "user"; U.ob = &OB; U.fd = 9; U.connection_type = PORT_TELNET;
  U.iflags = IN.iflags0; U.input_to = IN.has_input_to ? &S1 : 0;
  before = U.iflags;
  r = set_call (&OB, &S0, IN.flags);
  if (IN.has_input_to) VERIF_ASSERT ("C12.set_call.refused_while_an_input_to_is_pending", r == 0 && U.input_to == &S1 && U.iflags == before);
  else
    {
      VERIF_ASSERT ("C12.set_call.installed", r == 1 && U.input_to == &S0);
      VERIF_ASSERT ("C12.set_call.only_the_documented_input_bits_are_taken_from_lpc", (U.iflags & ~allowed) == (before & ~allowed));
      VERIF_ASSERT ("C12.set_call.requested_bits_set", (U.iflags & allowed) == ((before | IN.flags) & allowed));
      VERIF_WITNESS ("installed");
    }
  VERIF_WITNESS ("end");
}
