BASE = ['@world/world_base.c', '@world/libc_models.c', '@harness/C14/stubs.c', '@harness/C12/stubs.c']
def jobs(tier, ctx):
    out = []
    txt = 2 if tier == 'quick' else 4
    for cur in range(3):
        out.append(dict(name='cmd_step.cursor%d' % cur, srcs=['@harness/C12/cmd_step.c'], stubs=BASE, defs=['CURSOR=%d' % cur, 'TXT=%d' % txt], unwind=8,
                        targets=['get_user_command', 'first_cmd_in_buf', 'next_cmd_in_buf', 'cmd_in_buf', 'telnet_neg'], timeout=(600 if tier == 'quick' else 1500), mem_gb=13,
                        opt_witness=['served_after_skipping', 'somebody_served', 'nobody_served'],
                        desc='one get_user_command() call on an arbitrary 3-slot connection table (holes, flags, queued bytes symbolic), cursor=%d: step contract of DESIGN 5/C12' % cur,
                        inputs='presence, iflags, text_start, queued bytes (<=%d per user) of each slot' % txt,
                        assumptions=['hook verif_cmd_cursor positions the rotating cursor (add-only, guarded)', 'output pending = 0 (flush path is C14); no NOECHO (termios path cut); no backspace/delete bytes (C13)',
                                     'the per-cycle grant loop of backend() and command() are outside this step (argued in DESIGN 5/C12)']))
    out.append(dict(name='set_call', srcs=['@harness/C12/set_call.c'], stubs=['@world/world_base.c', '@world/libc_models.c', '@harness/C13/stubs_decoder.c', '@harness/C12/stubs.c'], unwind=8, cuts=['add_message', 'add_vmessage', 'flush_message'], nobody_ok=['*'],
                    targets=['set_call'], timeout=300, mem_gb=6, opt_witness=['installed'],
                    desc='set_call (input_to / get_char) with ANY flag word from LPC on a connection with ANY iflags: only I_NOECHO, I_NOESC, I_SINGLE_CHAR can be set; the scheduling flags (HAS_CMD_TURN, CMD_IN_BUF) and every other internal bit keep their value',
                    inputs='flag word, connection flags, pending input_to', assumptions=['network user (not the console slot); output path cut to counting stubs']))
    return out
