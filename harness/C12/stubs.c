#include <config.h>
#include "std.h"
#include <termios.h>
#include <sys/socket.h>
#include "verif.h"
int tcgetattr (int fd, struct termios *t) { (void) fd; (void) t; VERIF_UNREACHABLE ("tcgetattr"); return -1; }
int tcsetattr (int fd, int a, const struct termios *t) { (void) fd; (void) a; (void) t; VERIF_UNREACHABLE ("tcsetattr"); return -1; }
int tcflush (int fd, int q) { (void) fd; (void) q; VERIF_UNREACHABLE ("tcflush"); return -1; }
int isatty (int fd) { (void) fd; VERIF_UNREACHABLE ("isatty"); return 0; }
ssize_t send (int fd, const void *b, size_t n, int f) { (void) fd; (void) b; (void) n; (void) f; VERIF_UNREACHABLE ("send"); return -1; }
