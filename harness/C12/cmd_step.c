/* C12: step contract of one get_user_command() call (DESIGN 5/C12).
 * Real: src/comm.c get_user_command, first_cmd_in_buf, cmd_in_buf, next_cmd_in_buf, telnet_neg (via #include).
 * State: 3 connection slots as SEPARATE statics with the real MAX_TEXT / MESSAGE_BUF_SIZE, arbitrary NULL holes,
 * cursor anywhere (hook verif_cmd_cursor), each user's input buffer holding <= TXT symbolic bytes from a
 * symbolic text_start, any combination of CMD_IN_BUF / HAS_CMD_TURN / SINGLE_CHAR.
 */
#include "src/comm.c"
#include "verif.h"
#define NU 3
#ifndef TXT
#define TXT 4
#endif
#define IN_FIELDS(S,A) S(int, cursor) A(int, present, NU) A(int, flags, NU) A(int, start, NU) A(int, len, NU) A(char, txt, NU * TXT)
#include "verif_in.h"

static interactive_t U0, U1, U2; static object_t O0, O1, O2;
static interactive_t *UP (int i) { switch (i) { case 0: return &U0; case 1: return &U1; default: return &U2; } }
static object_t *OP (int i) { switch (i) { case 0: return &O0; case 1: return &O1; default: return &O2; } }

/* reference (from the statement): first complete, non-empty command of a buffer; returns its offset or -1 */
static int ref_first_cmd (int u, int *cmdlen)
{
  int p = IN.start[u], end = IN.start[u] + IN.len[u], q;
  const char *t = &IN.txt[u * TXT];
  while (p < end && t[p - IN.start[u]] == 0) p++;
  if (p >= end) return -1;
  if (IN.flags[u] & SINGLE_CHAR) { q = p; while (q < end && t[q - IN.start[u]]) q++; *cmdlen = q - p; return p; }
  q = p;
  while (q < end && t[q - IN.start[u]]) q++;
  if (q < end) { *cmdlen = q - p; return p; }
  return -1;
}
static int ref_has_more_after (int u, int off, int cmdlen)
{
  int p = off + cmdlen, end = IN.start[u] + IN.len[u], q;
  const char *t = &IN.txt[u * TXT];
  while (p < end && t[p - IN.start[u]] == 0) p++;
  if (p >= end) return 0;
  if (IN.flags[u] & SINGLE_CHAR) return 1;
  q = p;
  while (q < end && t[q - IN.start[u]]) q++;
  return q < end;
}

void harness (void)
{
  int i, k, served = -1, elig[NU], off[NU], clen[NU]; char *r;
  verif_in_init ();
  __CPROVER_assume (IN.cursor == CURSOR);
  IN.cursor = CURSOR;
  all_users = (interactive_t **) malloc (NU * sizeof (interactive_t *));
  __CPROVER_assume (all_users != 0);
  max_users = NU;
  for (i = 0; i < NU; i++)
    {
      interactive_t *ip = UP (i);
      __CPROVER_assume ((IN.flags[i] & ~(CMD_IN_BUF | HAS_CMD_TURN | SINGLE_CHAR | USING_TELNET | HAS_PROCESS_INPUT)) == 0);
      __CPROVER_assume (IN.start[i] == i && IN.len[i] >= 0 && IN.len[i] <= TXT);
      IN.start[i] = i;      /* concrete buffer offsets 0,1,2 (leading NULs are still symbolic bytes) */
      ip->ob = OP (i); OP (i)->interactive = ip; OP (i)->flags = 0;
      ip->iflags = IN.flags[i]; ip->message_length = 0; ip->connection_type = PORT_TELNET;
      ip->text_start = IN.start[i]; ip->text_end = IN.start[i] + IN.len[i];
      for (k = 0; k < TXT; k++)
        {
          char c = IN.txt[i * TXT + k];
          __CPROVER_assume (c != '\b' && c != 0x7f);        /* line editing is C13's subject */
          ip->text[i + k] = (k < IN.len[i]) ? c : 0;
        }
      ip->text[i + TXT] = 0;                                 /* reader invariant: text[text_end] == 0 */
#ifdef PRESENT
      /* case split: which slots hold a connection (bit i of PRESENT); the jobs together cover all 8 tables */
      __CPROVER_assume ((IN.present[i] != 0) == ((PRESENT >> i) & 1)); IN.present[i] = (PRESENT >> i) & 1;
#endif
      all_users[i] = IN.present[i] ? ip : 0;
      off[i] = ref_first_cmd (i, &clen[i]);
      elig[i] = IN.present[i] && (IN.flags[i] & CMD_IN_BUF) && (IN.flags[i] & HAS_CMD_TURN) && off[i] >= 0;
    }
  /* first eligible user in cursor order (the scan visits cursor, cursor-1, ...) */
  for (k = 0; k < NU; k++) { int u = (IN.cursor - k + NU) % NU; if (served < 0 && elig[u]) served = u; }
  verif_cmd_cursor = IN.cursor;
  command_giver = 0;
  r = get_user_command ();
  if (served < 0)
    {
      VERIF_ASSERT ("C12.no_eligible_user_returns_nothing", r == 0);
      for (i = 0; i < NU; i++) VERIF_ASSERT ("C12.no_turn_consumed_without_command", (UP (i)->iflags & HAS_CMD_TURN) == (IN.flags[i] & HAS_CMD_TURN));
      VERIF_WITNESS ("nobody_served");
    }
  else
    {
      interactive_t *ip = UP (served);
      VERIF_ASSERT ("C12.eligible_user_is_served_this_call", r != 0);
      if (r)
        {
          VERIF_ASSERT ("C12.serves_first_eligible_in_cursor_order", command_giver == OP (served));
          for (k = 0; k < TXT; k++) if (k < clen[served]) VERIF_ASSERT ("C12.oldest_command_text", r[k] == IN.txt[served * TXT + (off[served] - IN.start[served]) + k]);
          VERIF_ASSERT ("C12.command_terminated", r[clen[served]] == 0);
          VERIF_ASSERT ("C12.turn_consumed_exactly_for_served_user", !(ip->iflags & HAS_CMD_TURN));
          for (i = 0; i < NU; i++) if (i != served) VERIF_ASSERT ("C12.other_users_keep_their_turn", (UP (i)->iflags & HAS_CMD_TURN) == (IN.flags[i] & HAS_CMD_TURN));
          VERIF_ASSERT ("C12.cmd_in_buf_iff_another_complete_command", !!(ip->iflags & CMD_IN_BUF) == ref_has_more_after (served, off[served], clen[served]));
          if (ref_has_more_after (served, off[served], clen[served]))
            VERIF_ASSERT ("C12.buffer_advanced_by_exactly_one_command", ip->text_start > off[served] && ip->text_start <= off[served] + clen[served] + 1 + TXT && ip->text_end == IN.start[served] + IN.len[served]);
        }
      /* other users' queued text is untouched (positions may be normalised, bytes not) */
      for (i = 0; i < NU; i++)
        if (i != served && IN.present[i] && off[i] >= 0)
          VERIF_ASSERT ("C12.other_users_queue_untouched", UP (i)->text_start <= off[i] && UP (i)->text_end == IN.start[i] + IN.len[i]
                        && UP (i)->text[off[i]] == IN.txt[i * TXT + (off[i] - IN.start[i])]);
      if (served != IN.cursor) VERIF_WITNESS ("served_after_skipping");
      VERIF_WITNESS ("somebody_served");
    }
  for (i = 0; i < NU; i++)
    VERIF_ASSERT ("C12.buffer_indices_in_range", UP (i)->text_start >= 0 && UP (i)->text_start <= UP (i)->text_end && UP (i)->text_end < MAX_TEXT);
  VERIF_WITNESS ("end");
}
