/* C16: "a save interrupted at any point leaves the previous save file intact".
 * Real: lib/lpc/object.c save_object, save_object_recurse (+ svalue_save_size, save_svalue for one number variable).
 * The file system is a stub in which EVERY call may fail (fopen, each fprintf, fclose, rename): the crash / fault points of a
 * save.  Ghost: the final save file is only ever touched by rename(tmp, final); that rename must happen only after every
 * write and the fclose() flush succeeded, must name the temporary file first, and the final name is never opened for
 * writing.  On failure save_object reports 0.
 */
/* the stdio / file calls of object.c are renamed to the stub file system below (the native replay build needs the real
   fopen to load the recorded counterexample) */
#include <stdio.h>
#include <unistd.h>
#define fopen verif_fopen
#define fprintf verif_fprintf
#define fclose verif_fclose
#define rename verif_rename
#define unlink verif_unlink
FILE *verif_fopen (const char *nm, const char *mode); int verif_fprintf (FILE *f, const char *fmt, ...); int verif_fclose (FILE *f);
int verif_rename (const char *from, const char *to); int verif_unlink (const char *nm);
#include "lib/lpc/object.c"
#undef fopen
#undef fprintf
#undef fclose
#undef rename
#undef unlink
#include "verif.h"
#define NW 4
#define IN_FIELDS(S,A) S(int, fopen_ok) A(int, wres, NW) S(int, fclose_res) S(int, rename_res) A(int64_t, var, 2) S(int, save_zeros) S(int, valid_path)
#include "verif_in.h"
void verif_on_error (void) { }
/* allocation sizes are small but symbolic (computed from the values): fixed 32-byte blocks (a symbolic allocation size
   exhausts the solver; sizing is the subject of the round-trip jobs, not of this one) */
char *xalloc (size_t n) { char *q; VERIF_ASSERT ("C16.atomic.small_allocations", n <= 32); q = malloc (32); __CPROVER_assume (q != 0); return q; }
svalue_t *sp; static svalue_t STK[4];
static FILE fake; static int opened_tmp, opened_final, writes, write_failed, closed, close_failed, renamed, rename_failed, unlinked_tmp;
static char final_name[] = "d/x.o", tmp_expected[] = "d/x.o.tmp";
static int same (const char *a, const char *b) { int i; for (i = 0; i < 16; i++) { if (a[i] != b[i]) return 0; if (!a[i]) return 1; } return 0; }
char *check_valid_path (const char *path, object_t *ob, const char *fn, int wr)
{ (void) ob; (void) fn; (void) wr; VERIF_ASSERT ("C16.atomic.save_name_has_extension", same (path, final_name)); if (!IN.valid_path) return 0; return final_name; }
void push_malloced_string (char *s0) { sp++; sp->type = T_STRING; sp->subtype = STRING_MALLOC; sp->u.string = s0; }
FILE *verif_fopen (const char *nm, const char *mode)
{
  (void) mode;
  if (same (nm, final_name)) opened_final++;
  if (same (nm, tmp_expected)) opened_tmp++;
  VERIF_ASSERT ("C16.atomic.final_file_never_opened_for_writing", !same (nm, final_name));
  return IN.fopen_ok ? &fake : 0;
}
int verif_fprintf (FILE *f, const char *fmt, ...)
{
  int k = writes++;
  (void) fmt;
  VERIF_ASSERT ("C16.atomic.writes_go_to_the_temporary_file", f == &fake && !closed);
  if (k < NW && IN.wres[k] < 0) { write_failed = 1; return -1; }
  return 1;
}
int verif_fclose (FILE *f) { (void) f; closed++; if (IN.fclose_res < 0) { close_failed = 1; return -1; } return 0; }
int verif_rename (const char *from, const char *to)
{
  renamed++;
  /* the only operation that touches the previous save file */
  VERIF_ASSERT ("C16.atomic.rename_only_after_every_write_and_the_flush_succeeded", !write_failed && closed == 1 && !close_failed);
  VERIF_ASSERT ("C16.atomic.rename_moves_the_temporary_file_over_the_final_name", same (from, tmp_expected) && same (to, final_name));
  if (IN.rename_res < 0) { rename_failed = 1; return -1; }
  return 0;
}
int verif_unlink (const char *nm) { if (same (nm, tmp_expected)) unlinked_tmp++; VERIF_ASSERT ("C16.atomic.previous_save_file_never_unlinked", !same (nm, final_name)); return 0; }

void harness (void)
{
  static program_t P; static char *vnames[2] = { "a", "b" }; static unsigned short vtypes[2]; object_t *ob; int r;
  static char file[] = "d/x.c";
  verif_in_init ();
  /* a typed static object with ONE variable (a malloc'd object is a byte block for CBMC: the variable's type tag would not
     fold and the sizing code would be explored for every value kind) */
  { static object_t OB; ob = &OB; }
  P.name = "d/x"; P.num_inherited = 0; P.num_variables_defined = 1; P.num_variables_total = 1; P.variable_table = vnames; P.variable_types = vtypes;
  ob->prog = &P; ob->flags = 0; ob->name = "d/x";
  ob->variables[0].type = T_NUMBER; ob->variables[0].subtype = 0; ob->variables[0].u.number = IN.var[0];
  __CPROVER_assume (IN.var[0] >= -99 && IN.var[0] <= 99 && IN.var[1] >= -99 && IN.var[1] <= 99);
  sp = &STK[0];
  r = save_object (ob, file, IN.save_zeros != 0);
  VERIF_ASSERT ("C16.atomic.success_reported_iff_the_new_file_is_in_place", (r == 1) == (renamed == 1 && !rename_failed));
  if (r == 1) VERIF_ASSERT ("C16.atomic.success_means_everything_was_written", IN.fopen_ok && !write_failed && !close_failed && opened_tmp == 1);
  if (r != 1 && opened_tmp && closed && !renamed) VERIF_ASSERT ("C16.atomic.failed_save_removes_its_temporary_file", unlinked_tmp >= 1);
  VERIF_ASSERT ("C16.atomic.argument_slot_released", sp == &STK[0]);
  if (r == 1) VERIF_WITNESS ("saved");
  if (write_failed) VERIF_WITNESS ("write_failed");
  if (close_failed) VERIF_WITNESS ("flush_failed_at_fclose");
  if (rename_failed) VERIF_WITNESS ("rename_failed");
  VERIF_WITNESS ("end");
}
