/* C16: save_variable/restore_svalue round trip, sizing, robust restore.
 * Real: lib/lpc/object.c (svalue_save_size, save_svalue, save_variable, restore_svalue, restore_string,
 * restore_interior_string, parse_numeric, restore_array, restore_size, restore_internal_size), src/stralloc.c,
 * lib/lpc/array.c (allocate_array...). */
#include "lib/lpc/object.c"
#include "verif.h"
#ifndef NB
#define NB 4
#endif
#define IN_FIELDS(S,A) S(int64_t, num) A(char, txt, NB + 1)
#include "verif_in.h"
void verif_on_error (void) { }

static int idle (void) { return save_svalue_depth == 0 && save_svalue_sizes == 0; }

void harness (void)
{
  svalue_t v, out;
  verif_in_init ();
  out.type = T_NUMBER; out.subtype = 0; out.u.number = 0;
#if defined(MODE_NUM) || defined(MODE_STR)
  /* save_variable() = { size = svalue_save_size(v); buf = new_string(size - 1); save_svalue(v, &p); }.  The heap buffer
     of symbolic size is replaced by a fixed array (a symbolic allocation size exhausts the solver); its capacity
     contract is asserted instead: save_svalue writes at most size-1 characters plus the terminator, never before buf. */
#define CAP 48
  {
    char buf[CAP]; char *p = buf; size_t size; int r, i;
#ifdef MODE_NUM
#ifdef WLO
    __CPROVER_assume (IN.num >= (WLO) && IN.num <= (WHI));
#endif
    v.type = T_NUMBER; v.subtype = 0; v.u.number = IN.num;
#else
    int has_cr = 0, same = 1; size_t n = 0; char *src;
    IN.txt[NB] = 0;
    while (IN.txt[n]) n++;
    src = new_string (NB, "harness");
    for (i = 0; i <= NB; i++) { src[i] = IN.txt[i]; if (i < (int) n && IN.txt[i] == '\r') has_cr = 1; }
    v.type = T_STRING; v.subtype = STRING_MALLOC; v.u.string = src;
#endif
    save_svalue_depth = 0;
    size = svalue_save_size (&v);
    VERIF_ASSERT ("C16.save.size_sane", size >= 2 && size <= CAP);
    buf[0] = 0;
    save_svalue (&v, &p);
    VERIF_ASSERT ("C16.save.fits_allocated_size", p >= buf && (size_t) (p - buf) <= size - 1 && *p == 0);
#ifdef MODE_NUM
    /* restore_svalue dispatches '-' and digits to parse_numeric (decided with a concrete first byte in robust_neg /
       robust_dig); the same statements are replayed here so that symex does not fork into the container parsers */
    VERIF_ASSERT ("C16.save.number_starts_with_sign_or_digit", buf[0] == '-' || (buf[0] >= '0' && buf[0] <= '9'));
    { char *cp = buf + 1; r = parse_numeric (&cp, buf[0], &out) ? 0 : ROB_NUMERAL_ERROR; }
    VERIF_ASSERT ("C16.roundtrip.number", r == 0 && out.type == T_NUMBER && out.u.number == IN.num);
#else
    VERIF_ASSERT ("C16.save.string_starts_with_quote", buf[0] == '"');
    r = restore_string (buf + 1, &out);       /* = restore_svalue for the '"' class (robust_str decides the dispatch) */
    VERIF_ASSERT ("C16.roundtrip.string_restores", r == 0 && out.type == T_STRING);
    if (r == 0 && out.type == T_STRING)
      {
        for (i = 0; i <= NB; i++) if (i <= (int) n && out.u.string[i] != IN.txt[i]) same = 0;
        if (!has_cr) VERIF_ASSERT ("C16.roundtrip.string_equal", same);
        else VERIF_ASSERT ("C16.roundtrip.string_with_CR_equal", same);
      }
    if (n == NB) VERIF_WITNESS ("full_length");
#endif
    VERIF_WITNESS ("end");
  }
#endif
#if defined(MODE_ROB) || defined(MODE_MUT)
  {
#ifdef MODE_ROB
    /* arbitrary text: concrete class prefix PFX, then NB symbolic bytes, then NUL */
    static const char pfx[] = PFX;
    char *buf = (char *) malloc (sizeof pfx + NB);
    int i, r, r2; svalue_t out2;
    __CPROVER_assume (buf != 0);
    for (i = 0; i < (int) sizeof pfx - 1; i++) buf[i] = pfx[i];
    for (i = 0; i < NB; i++) buf[sizeof pfx - 1 + i] = IN.txt[i];
    buf[sizeof pfx - 1 + NB] = 0;
#else
    /* damaged save text: the well-formed text MUT_TEXT with the byte at position POS replaced by ANY byte (0 = truncation
       there); the other bytes stay concrete, so the parser's control flow is symbolic from the damaged byte on only */
    static const char base[] = MUT_TEXT;
    char *buf = (char *) malloc (sizeof base);
    int i, r, r2; svalue_t out2;
    __CPROVER_assume (buf != 0);
    for (i = 0; i < (int) sizeof base; i++) buf[i] = base[i];
    buf[POS] = IN.txt[0];
    if (IN.txt[0] == base[POS]) VERIF_WITNESS ("undamaged_text");
#endif
#ifdef SAFE
    r = safe_restore_svalue (buf, &out);
#else
    r = restore_svalue (buf, &out);
#endif
    VERIF_ASSERT ("C16.robust.result_is_success_or_ROB_error", r == 0 || r == ROB_ARRAY_ERROR || r == ROB_MAPPING_ERROR || r == ROB_NUMERAL_ERROR || r == ROB_GENERAL_ERROR || r == ROB_CLASS_ERROR || r == ROB_STRING_ERROR);
    VERIF_ASSERT ("C16.robust.parser_state_idle_after", idle ());
    /* the next restore is unaffected by this one */
    {
      char t2[] = "({7,8,})";
      out2.type = T_NUMBER; out2.u.number = 0;
      r2 = restore_svalue (t2, &out2);
      VERIF_ASSERT ("C16.robust.next_restore_unaffected", r2 == 0 && out2.type == T_ARRAY && out2.u.arr->size == 2
                    && out2.u.arr->item[0].u.number == 7 && out2.u.arr->item[1].u.number == 8);
    }
    if (r != 0) VERIF_WITNESS ("error_result");
    if (r == 0) VERIF_WITNESS ("success_result");
    VERIF_WITNESS ("end");
  }
#endif
}
