/* cuts for the C16 harnesses: values handled here never contain function pointers, programs or objects */
#include "all_types.h"
#include "std.h"
#include "lpc/types.h"
#include "lpc/functional.h"
#include "lpc/program.h"
#include "lpc/otable.h"
#include "misc/hash.h"
#include "verif.h"
void dealloc_funp (funptr_t *f) { (void) f; VERIF_UNREACHABLE ("dealloc_funp"); }
void free_funp (funptr_t *f) { (void) f; VERIF_UNREACHABLE ("free_funp"); }
void free_prog (program_t *p, int f) { (void) p; (void) f; VERIF_UNREACHABLE ("free_prog"); }
object_t *lookup_object_hash (const char *s) { (void) s; VERIF_UNREACHABLE ("lookup_object_hash"); return 0; }
#ifdef VERIF_CBMC
int whashstr (const char *s, int n) { unsigned h = 0; int i; for (i = 0; i < n && s[i]; i++) h = h * 2 + (unsigned char) s[i]; return (int) (h & 0x7fff); }
#endif
#if defined(VERIF_NO_XALLOC) && !defined(ATOMIC_SAVE)
/* allocator model of the robust-restore jobs: the nesting-size table of restore_internal_size (128 ints while the nesting
   depth stays below 128, which the bounded texts cannot exceed) is one typed block; growing it is outside the bound (cut:
   reaching it makes the run inconclusive, so the solver proves it unreachable); every other request is a plain malloc */
char *xalloc (size_t n)
{
  char *p;
  if (n == 128 * sizeof (int)) { int *t = malloc (sizeof (int[128])); __CPROVER_assume (t != 0); return (char *) t; }
  if (n > 128 * sizeof (int)) { VERIF_UNREACHABLE ("allocation larger than the size table"); }
  p = malloc (n);
  __CPROVER_assume (p != 0);
  return p;
}
#ifdef VERIF_CBMC
void *realloc (void *p, size_t n) { (void) n; VERIF_UNREACHABLE ("realloc (size table growth)"); return p; }
#endif
#endif
