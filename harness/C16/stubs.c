/* cuts for the C16 harnesses: values handled here never contain function pointers, programs or objects */
#include "all_types.h"
#include "std.h"
#include "lpc/types.h"
#include "lpc/functional.h"
#include "lpc/program.h"
#include "lpc/otable.h"
#include "misc/hash.h"
#include "verif.h"
void dealloc_funp (funptr_t *f) { (void) f; VERIF_UNREACHABLE ("dealloc_funp"); }
void free_funp (funptr_t *f) { (void) f; VERIF_UNREACHABLE ("free_funp"); }
void free_prog (program_t *p, int f) { (void) p; (void) f; VERIF_UNREACHABLE ("free_prog"); }
object_t *lookup_object_hash (const char *s) { (void) s; VERIF_UNREACHABLE ("lookup_object_hash"); return 0; }
#ifdef VERIF_CBMC
int whashstr (const char *s, int n) { unsigned h = 0; int i; for (i = 0; i < n && s[i]; i++) h = h * 2 + (unsigned char) s[i]; return (int) (h & 0x7fff); }
#endif
