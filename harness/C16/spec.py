BASE = ['@world/world_base.c', '@world/libc_models.c', '@world/world_err.c']
REAL = ['src/stralloc.c', 'lib/lpc/array.c', 'lib/lpc/mapping.c', 'lib/lpc/class.c', 'lib/lpc/svalue.c', 'lib/lpc/buffer.c']
A = ['restore of a text is modelled on a writable NUL-terminated buffer of exactly the text length (the functions edit it in place)',
     'mblen follows UTF-8 (C.UTF-8 locale); isdigit follows the C locale']

def J(name, defs, desc, inputs, **kw):
    d = dict(name=name, srcs=['@harness/C16/saverestore.c'] + REAL, stubs=BASE + ['@harness/C16/stubs.c'], defs=defs, unwind=kw.pop('unwind', 24),
             targets=kw.pop('targets'), timeout=kw.pop('timeout', 280), mem_gb=kw.pop('mem_gb', 8), desc=desc, inputs=inputs, assumptions=A)
    d.update(kw)
    return d

import os
SOLVER_NUM = os.environ.get('C16_SOLVER', 'cadical')

# the float/exponent loops of parse_numeric are unreachable for a saved integer: 1 unwinding each; the unwinding assertions
# prove that (a reachable second iteration would make the run inconclusive)
NUMUW = ['parse_numeric.%d:1' % k for k in range(1, 6)]

def W(c, r=100):
    return ('%dLL' % (c - r), '%dLL' % (c + r))
WQ = [('small', '-3000LL', '3000LL'), ('int32max',) + W(2**31), ('int32min',) + W(-2**31), ('p10_10',) + W(10**10),
      ('int64max', '%dLL' % (2**63 - 200), '%dLL' % (2**63 - 1)), ('int64min', '(-%dLL-1)' % (2**63 - 1), '(-%dLL)' % (2**63 - 200))]
WT = WQ + [('uint32',) + W(2**32)] + [('p10_%d' % k,) + W(10**k) for k in (5, 9, 12, 15, 18)] + [('m10_%d' % k,) + W(-10**k) for k in (5, 10, 18)]
WINDOWS = {'quick': WQ, 'thorough': WT}
def LL(v):
    return '(-%dLL-1)' % (2**63 - 1) if v == -2**63 else '%dLL' % v
def GW(tier):
    """wide windows decided with the guess-and-check formatting model: every |n| < 10^7, then +-10^6 around every power of ten,
    around +-2^31, +-2^32 and at both ends of the int64 range; thorough adds whole digit classes of 8..10 digits"""
    r = 10**6
    w = [('upto7', -(10**7) + 1, 10**7 - 1)]
    for k in range(8, 19):
        w.append(('p10_%d' % k, 10**k - r, 10**k + r)); w.append(('m10_%d' % k, -10**k - r, -10**k + r))
    for (nm, c) in (('p2_31', 2**31), ('m2_31', -2**31), ('p2_32', 2**32), ('m2_32', -2**32)):
        w.append((nm, c - r, c + r))
    w.append(('int64max', 2**63 - 1 - r, 2**63 - 1)); w.append(('int64min', -2**63, -2**63 + r))
    if tier != 'quick':
        for k in (8, 9, 10):
            w.append(('d%d' % k, 10**(k - 1), 10**k - 1)); w.append(('md%d' % k, -(10**k) + 1, -(10**(k - 1))))
    return [(nm, LL(lo), LL(hi)) for (nm, lo, hi) in w]

def jobs(tier, ctx):
    q = tier == 'quick'
    ns = 3 if q else 5
    nb = 4 if q else 6
    out = [
    ] + [
        J('roundtrip_number.%s' % nm, ['MODE_NUM=1', 'WLO=%s' % lo, 'WHI=%s' % hi], 'restore_svalue(save_variable(n)) == n and the save buffer is large enough, for every n in [%s, %s]' % (lo, hi),
          'n: int64 in the window', solver=SOLVER_NUM, targets=['parse_numeric', 'svalue_save_size', 'save_svalue'], unwindset=NUMUW, mem_gb=2)
        for (nm, lo, hi) in WINDOWS[tier]
    ] + [
        J('roundtrip_number_g.%s' % nm, ['MODE_NUM=1', 'WLO=%s' % lo, 'WHI=%s' % hi, 'VERIF_FMT_GUESS=1'], 'restore_svalue(save_variable(n)) == n and the save buffer is large enough, for every n in [%s, %s] (decimal formatting of the libc model as guess-and-check)' % (lo, hi),
          'n: int64 in the window', targets=['parse_numeric', 'svalue_save_size', 'save_svalue'], unwindset=NUMUW, mem_gb=3, timeout=(400 if not nm.startswith(('d', 'md')) else 5400))
        for (nm, lo, hi) in GW(tier)
    ] + [
        J('roundtrip_string.n%d' % ns, ['MODE_STR=1', 'NB=%d' % ns], 'restore(save(s)) == s and sizing is sufficient for every string of <= %d bytes (all byte values)' % ns,
          's: %d symbolic bytes' % ns, targets=['svalue_save_size', 'save_svalue', 'restore_string'], unwind=2 * ns + 6, timeout=600),
    ]
    # the container classes ('({', '([', '(/') are NOT decided: restore_internal_size / restore_array walk the text through a
    # char** cursor shared across recursion levels; with even one symbolic byte CBMC's symex does not finish (nested if-then-else
    # pointer expressions, > 25 min for 2 bytes).  They stay available with C16_EXPERIMENTAL=1 (DESIGN section 10, correction 15).
    EXP = bool(os.environ.get('C16_EXPERIMENTAL'))
    classes = [('str', '"\\""'), ('neg', '"-"'), ('dig', '"1"'), ('other', '"x"')] + ([('arr', '"({"'), ('cls', '"(/"')] if EXP else [])
    for (nm, pfx) in classes:
      for nb in ((int(os.environ['C16_NB']),) if os.environ.get('C16_NB') else (nb,)):
        typed = nm in ('arr', 'cls')
        RUW = ['restore_internal_size:3', 'restore_array:2', 'restore_mapping:2', 'restore_class:2'] if typed else []
        out.append(J('robust_%s.n%d' % (nm, nb), ['MODE_ROB=1', 'NB=%d' % nb, 'PFX=' + pfx] + (['VERIF_ARRAY_ITEMS=8', 'VERIF_NO_XALLOC=1'] if typed else []),
                     'restore_svalue on the prefix %s followed by any %d bytes: memory safe, success or ROB error, parser state idle, next restore unaffected' % (pfx, nb),
                     '%d symbolic bytes after a concrete first-byte class' % nb, targets=['restore_svalue'], opt_witness=['error_result', 'success_result'], unwind=nb + 4, unwindset=RUW, timeout=600, **({'stubs': BASE + ['@harness/C16/stubs.c', '@world/typed_arrays.c']} if typed else {})))
    out.append(J('atomic_save', ['VERIF_NO_XALLOC=1', 'ATOMIC_SAVE=1'], 'save_object of an object with one number variable on a file system in which fopen, every fprintf, the fclose flush and rename may each fail: the previous save file is only replaced by rename(tmp, final) after every write and the flush succeeded; failure is reported',
                 'outcome of fopen / each fprintf / fclose / rename, variable values, save_zeros, master verdict on the path', targets=['save_object', 'save_object_recurse'], unwind=24, mem_gb=4,
                 opt_witness=['saved', 'write_failed', 'flush_failed_at_fclose', 'rename_failed'], srcs=['@harness/C16/atomic_save.c'] + REAL, nobody_ok=['*']))
    # single-byte damage of well-formed container texts (arrays, mappings, classes, nesting): one job per (text, position)
    bases = ['({7,})', '({({7,}),8,})', '([1:2,])', '({"a",})', '(/7,/)'] if q else ['({7,})', '({({7,}),8,})', '([1:2,])', '({"a",})', '(/7,/)', '({([1:2,]),})', '([({7,}):({8,}),])', '({(/7,/),"b\\"",-1,})']
    for bi, b in enumerate(bases if EXP else []):
        for pos in range(len(b)):
            out.append(J('damaged.t%d.p%d' % (bi, pos), ['MODE_MUT=1', 'NB=1', 'MUT_TEXT="%s"' % b.replace('\\', '\\\\').replace('"', '\\"'), 'POS=%d' % pos, 'VERIF_ARRAY_ITEMS=8', 'VERIF_NO_XALLOC=1'],
                         'restore_svalue on the text %s with the byte at position %d replaced by any byte: memory safe, success or ROB error, parser state idle, next restore unaffected' % (b, pos),
                         '1 symbolic byte', targets=['restore_svalue'], opt_witness=['error_result', 'success_result', 'undamaged_text'], unwind=len(b) + 3,
                         unwindset=['restore_internal_size:4', 'restore_array:3', 'restore_mapping:3', 'restore_class:3'], timeout=600, stubs=BASE + ['@harness/C16/stubs.c', '@world/typed_arrays.c']))
    return out
