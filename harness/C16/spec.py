BASE = ['@world/world_base.c', '@world/libc_models.c', '@world/world_err.c']
REAL = ['src/stralloc.c', 'lib/lpc/array.c', 'lib/lpc/mapping.c', 'lib/lpc/class.c', 'lib/lpc/svalue.c', 'lib/lpc/buffer.c']
A = ['restore of a text is modelled on a writable NUL-terminated buffer of exactly the text length (the functions edit it in place)',
     'mblen follows UTF-8 (C.UTF-8 locale); isdigit follows the C locale']

def J(name, defs, desc, inputs, **kw):
    d = dict(name=name, srcs=['@harness/C16/saverestore.c'] + REAL, stubs=BASE + ['@harness/C16/stubs.c'], defs=defs, unwind=kw.pop('unwind', 24),
             targets=kw.pop('targets'), timeout=kw.pop('timeout', 280), mem_gb=kw.pop('mem_gb', 8), desc=desc, inputs=inputs, assumptions=A)
    d.update(kw)
    return d

import os
SOLVER_NUM = os.environ.get('C16_SOLVER', 'cadical')

def W(c, r=100):
    return ('%dLL' % (c - r), '%dLL' % (c + r))
WQ = [('small', '-3000LL', '3000LL'), ('int32max',) + W(2**31), ('int32min',) + W(-2**31), ('p10_10',) + W(10**10),
      ('int64max', '%dLL' % (2**63 - 200), '%dLL' % (2**63 - 1)), ('int64min', '(-%dLL-1)' % (2**63 - 1), '(-%dLL)' % (2**63 - 200))]
WT = WQ + [('uint32',) + W(2**32)] + [('p10_%d' % k,) + W(10**k) for k in (5, 9, 12, 15, 18)] + [('m10_%d' % k,) + W(-10**k) for k in (5, 10, 18)]
WINDOWS = {'quick': WQ, 'thorough': WT}

def jobs(tier, ctx):
    q = tier == 'quick'
    ns = 3 if q else 5
    nb = 4 if q else 6
    out = [
    ] + [
        J('roundtrip_number.%s' % nm, ['MODE_NUM=1', 'WLO=%s' % lo, 'WHI=%s' % hi], 'restore_svalue(save_variable(n)) == n and the save buffer is large enough, for every n in [%s, %s]' % (lo, hi),
          'n: int64 in the window', solver=SOLVER_NUM, targets=['parse_numeric', 'svalue_save_size', 'save_svalue'])
        for (nm, lo, hi) in WINDOWS[tier]
    ] + [
        J('roundtrip_string.n%d' % ns, ['MODE_STR=1', 'NB=%d' % ns], 'restore(save(s)) == s and sizing is sufficient for every string of <= %d bytes (all byte values)' % ns,
          's: %d symbolic bytes' % ns, targets=['svalue_save_size', 'save_svalue', 'restore_string']),
    ]
    classes = [('str', '"\\""'), ('arr', '"({"'), ('neg', '"-"'), ('dig', '"1"'), ('cls', '"(/"'), ('other', '"x"')]
    for (nm, pfx) in classes:
        out.append(J('robust_%s.n%d' % (nm, nb), ['MODE_ROB=1', 'NB=%d' % nb, 'PFX=' + pfx],
                     'restore_svalue on the prefix %s followed by any %d bytes: memory safe, success or ROB error, parser state idle, next restore unaffected' % (pfx, nb),
                     '%d symbolic bytes after a concrete first-byte class' % nb, targets=['restore_svalue'], opt_witness=['error_result', 'success_result']))
    return out
