#include "all_types.h"
#include "verif.h"
/* objects and function pointers held by VM values are released by reference only in the step harnesses */
void free_object (object_t *ob, const char *why) { (void) why; ob->ref--; VERIF_ASSERT ("VM.object_not_over_released", ob->ref >= 1); }
void dealloc_object (object_t *o, const char *f) { (void) o; (void) f; VERIF_UNREACHABLE ("dealloc_object"); }
/* the only error handler a T_ERROR_HANDLER slot can hold in the step harnesses (function pointer calls are restricted to it) */
int vm_error_handler_runs; void vm_error_handler (void) { vm_error_handler_runs++; }
#ifdef CALL_INHERITED
/* '::' call jobs (C07): frame construction is decided by C04's frame_setup jobs; here it is a recording stub so that the
   job isolates the opcode's own bookkeeping (program switch, function / variable offsets, saved caller frame) */
int verif_sif_calls, verif_sif_index;
compiler_function_t *setup_inherited_frame (int index)
{
  static compiler_function_t F;
  verif_sif_calls++; verif_sif_index = index;
  F.name = "f"; F.address = 2;
  return &F;
}
#endif
