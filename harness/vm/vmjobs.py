"""job generator shared by the properties that use the VM step engine"""
import os, re
REAL = ['src/interpret.c', 'lib/lpc/operator.c', 'src/stack.c', 'src/frame.c', 'lib/lpc/svalue.c', 'src/stralloc.c', 'lib/lpc/array.c',
        'lib/lpc/mapping.c', 'lib/lpc/buffer.c', 'lib/lpc/class.c', 'lib/misc/hash.c', 'src/error_context.c']
STUBS = ['@world/world_base.c', '@world/libc_models.c', '@world/vm_world.c', '@world/world_err.c', '@harness/vm/stubs.c']
KIND = {'NUM': 0, 'REAL': 1, 'STR': 2, 'ARR': 3, 'BUF': 4, 'OBJ': 5, 'STRSH': 6, 'LVARR': 7, 'LVSTR': 8, 'LVBUF': 9, 'ARRM': 10, 'LVSELF': 11}
A = ['one bytecode step from a VM state of the engine shape: 3 number locals, 3 number globals, operands of the stated kinds with length <= CAP; larger values and multi-step interactions are outside',
     'LPC errors end the path after the post-step oracles (stack unwinding with the real pop_n_elems); objects/function pointers are released by reference only',
     'unions compiled as structs in the CBMC encoding (DESIGN Corrections 1); hooks VERIF_SYNC_REFED keep punned svalue members in sync']

def opcodes(ctx):
    ops = {}
    for ln in open(os.path.join(ctx['gen'], 'lib/efuns/efuns_opcode.h')):
        m = re.match(r'#define\s+(F_\w+)\s+(\d+)', ln)
        if m:
            ops[m.group(1)] = int(m.group(2))
    return ops

def index_classes(ln, rev):
    """case split of an int64 index v into classes that cover all of int64 for an array of ln elements: each in-range
    position is one concrete value (the element read stays a concrete element), both out-of-range sides stay symbolic
    (a correct step raises the error before touching an element).  For x[<v] the position is ln - v."""
    if rev:
        inr = [('pos%d' % (ln - v), ['NUMK0=%dLL' % v]) for v in range(1, ln + 1)]
        return inr + [('below', ['NUMC0=(v<1)']), ('above', ['NUMC0=(v>%dLL)' % ln])]
    inr = [('pos%d' % v, ['NUMK0=%dLL' % v]) for v in range(0, ln)]
    return inr + [('below', ['NUMC0=(v<0)']), ('above', ['NUMC0=(v>=%dLL)' % ln])]

def step_job(ctx, prefix, op, kinds, oracle=(), cap=3, nsteps=1, op2=None, extra_defs=(), timeout=300, mem=5, desc='', tag='', cuts=None, checks=(), typed_arrays=0, unwind=None):
    ops = opcodes(ctx)
    if op not in ops or (op2 and op2 not in ops):
        return None
    stubs = STUBS
    defs = ['VMW_HAVE_INTERPRET=1', 'OPC=%d' % ops[op], 'NOPS=%d' % len(kinds), 'CAP=%d' % cap, 'NSTEPS=%d' % nsteps]
    if op2:
        defs.append('OPC2=%d' % ops[op2])
    for i, k in enumerate(kinds):
        defs.append('K%d=%d' % (i, KIND[k]))
    defs += ['ORACLE_%s=1' % o for o in oracle] + list(extra_defs)
    if typed_arrays:
        # typed fixed-capacity array blocks (hook in lib/lpc/array.h + world/vm_world.c): sizes, refs and tags constant-fold
        defs.append('VERIF_ARRAY_ITEMS=%d' % typed_arrays)
        stubs = STUBS + ['@world/typed_arrays.c']
    elif any(k == 'ARRM' for k in kinds):
        mem = max(mem, 14)
    name = '%s.%s%s.%s' % (prefix, op[2:].lower(), ('+' + op2[2:].lower()) if op2 else '', '_'.join(k.lower() for k in kinds) or 'none') + (('.' + tag) if tag else '')
    # value kinds that cannot occur in this job: their release code is cut to `assert(false); assume(false)` bodies, so the
    # solver PROVES it unreachable instead of symex unfolding it under every infeasible type-tag guess
    if cuts is None:
        cuts = ['dealloc_mapping', 'dealloc_class', 'dealloc_funp', 'free_mapping', 'free_class']
    # the real error raising code is replaced by the error model of world_err.c (type_name, save/restore_context stay real)
    cuts = list(cuts) + ['error', 'error_handler', 'bad_arg', 'bad_argument', 'throw_error', 'mudlib_error_handler', 'debug_message_with_location']
    return dict(name=name, cuts=cuts, checks=['--bounds-check', '--pointer-check', '--div-by-zero-check'] + list(checks), srcs=['@harness/vm/vm_step.c'] + REAL, stubs=stubs, defs=defs, unwind=(unwind if unwind is not None else cap + 3),
                unwindset=['mk_value.%d:10' % k for k in range(8)] + ['pop_n_elems.0:12', 'harness.0:13', 'harness.1:4', 'harness.2:4', 'harness.3:4', 'post_step.0:9', 'post_step.1:9', 'post_step.2:4', 'strlen.0:%d' % (cap + 30), 'type_name.0:12', 'strcpy.0:32', 'strcat.0:32', 'strncpy.0:32','verif_fmt.0:26', 'verif_fmt.1:26', 'verif_fmt.2:26', 'verif_fmt.3:26', 'verif_fmt.4:26', 'verif_fmt.5:26', 'verif_fmt.6:26', 'verif_fmt.7:26', 'verif_fmt.8:26', 'verif_fmt.9:26', 'verif_fmt.10:26', 'verif_fmt.11:26', 'free_svalue:2', 'dealloc_array:2', 'dealloc_class:2', 'dealloc_mapping:2', 'dealloc_funp:1', 'error:1', 'verif_on_error:1', 'post_step:1'],
                flags=['--object-bits', '11'], targets=['eval_instruction'], restrict_fp=['free_svalue.function_pointer_call.1/vm_error_handler'], timeout=timeout, mem_gb=mem, opt_witness=['lpc_error_path', 'step_completed', 'returned_from_eval_instruction'],
                desc=desc or ('one step of the real eval_instruction: %s%s on operands (%s, bottom->top), all values of each kind' % (op, (' then ' + op2) if op2 else '', ', '.join(kinds))),
                inputs='operand contents (int64 numbers, doubles, bytes, lengths<=%d, refs), operand bytes of the instruction' % cap, assumptions=A)
