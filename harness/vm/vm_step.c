/* VM step engine (DESIGN 5, shared by C01/C03/C04/C06): executes ONE bytecode step of the REAL eval_instruction
 * (src/interpret.c) from a symbolic VM state.  The opcode (byte 0 of the program) and the KINDS of the operands on
 * the value stack are concrete per run (defs OPC, NOPS, K0..K2: kinds bottom->top); everything inside a kind is symbolic:
 * numbers over all int64, strings/buffers/arrays of symbolic length <= CAP with symbolic content, ref counts 1..2.
 * eval_cost = NSTEPS+1: the dispatch loop executes NSTEPS instructions, then raises "Too long evaluation" through the
 * error stub, where the post-step oracles run (the same oracles run when the instruction itself raises an LPC error).
 */
#include "all_types.h"
#include "verif.h"
#include "lpc/operator.h"
#include "lpc/include/origin.h"
#ifndef NOPS
#define NOPS 2
#endif
#ifndef NSTEPS
#define NSTEPS 1
#endif
#ifndef CAP
#define CAP 3
#endif
#define KNUM 0
#define KREAL 1
#define KSTR 2
#define KARR 3
#define KBUF 4
#define KOBJ 5
#define KSTRSH 6
#define KLVARR 7      /* T_LVALUE -> local variable holding an array / string / buffer */
#define KLVSTR 8
#define KLVBUF 9
#define KARRM 10      /* array from the real allocator, concrete length LENKi, ref 1..2 (with VERIF_ARRAY_ITEMS: a typed block) */
#define KLVSELF 11    /* T_LVALUE -> local variable holding the SAME array as operand 0 (x op= x); the array then has ref 2 */
#define NCODE 12
#define IN_FIELDS(S,A) A(int64_t, num, 3) A(uint64_t, realbits, 3) A(unsigned, len, 3) A(unsigned char, bytes, 3 * 8) A(int, ref, 3) \
  A(int64_t, elem, 3 * 4) A(int, dest, 3) A(unsigned char, code, NCODE) A(int64_t, local, 3) A(int64_t, global, 3) A(int, limit, 4)
#include "verif_in.h"
void vm_world_init (void);
void eval_instruction (const char *p);
#ifdef GEN_LITERAL
/* C03: the literal is ENCODED by the real code generator (lib/lpc/program/icode.c write_long_number, exported file-local
   symbol) and then executed by the real interpreter: the value pushed must be the value encoded. */
#include "lpc/compiler.h"
void __CPROVER_file_local_icode_c_write_long_number (int64_t);
extern char *prog_code, *prog_code_max; extern int current_block;
static char genbuf[32];
#endif

static program_t PROG; static char CODE[NCODE + 4]; static char *STRS[3]; static object_t *THIS; static object_t OBJ_LIVE, OBJ_DEAD;
static svalue_t *sp_base; static int steps_done, post_ran;
#ifdef CALL_INHERITED
/* C07: a '::' call into one inherited program with one function (tables as the compiler lays them out, uncompressed) */
static program_t PARENT; static compiler_function_t PFT[1]; static unsigned short PFLAGS[1]; static runtime_function_u POFF[1];
static compressed_offset_table_t PCT; static inherit_t INH[1]; static char PCODE[8]; static int F0, V0;
#endif
/* ghost: holders of the universe values (C06) */
static array_t *garr[3]; static buffer_t *gbuf[3]; static int gkind[3];

static int kind_of (int i)
{
#if NOPS > 0
  if (i == 0) return K0;
#endif
#if NOPS > 1
  if (i == 1) return K1;
#endif
#if NOPS > 2
  if (i == 2) return K2;
#endif
  return KNUM;
}

static void mk_value (int i, int kind);
static int lv_slot[3] = { -1, -1, -1 };
static void mk_lvalue_to_local (int i, int ckind)
{
  /* the container goes into local variable i, the operand is an lvalue pointing at that variable */
  mk_value (i, ckind);
  *(fp + i) = *sp; sp--;
  lv_slot[i] = i;
  sp++; sp->type = T_LVALUE; sp->subtype = 0; sp->u.lvalue = fp + i;
}
static void mk_value (int i, int kind)
{
  unsigned n = IN.len[i], k;
  gkind[i] = kind;
  /* LENKi = concrete length of container operand i (jobs that must keep element accesses concrete) */
#ifdef LENK0
  if (i == 0) { __CPROVER_assume (n == LENK0); n = LENK0; }
#endif
#ifdef LENK1
  if (i == 1) { __CPROVER_assume (n == LENK1); n = LENK1; }
#endif
#ifdef LENK2
  if (i == 2) { __CPROVER_assume (n == LENK2); n = LENK2; }
#endif
#ifdef ORACLE_LIMIT
  /* the pre-state respects the limits (inductive step) */
  if (kind == KARR || kind == KLVARR || kind == KARRM) __CPROVER_assume ((int) n <= IN.limit[0]);
  if (kind == KBUF || kind == KLVBUF) __CPROVER_assume ((int) n <= IN.limit[1]);
  if (kind == KSTR || kind == KSTRSH || kind == KLVSTR) __CPROVER_assume ((int) n <= IN.limit[2]);
#endif
  switch (kind)
    {
    case KNUM:
      {
        int64_t v = IN.num[i];
        /* per-operand constraints chosen by the job: NUMCi = predicate over v (symbolic part of the domain),
           NUMKi = concrete value (the few in-range values of an index are enumerated so that element accesses stay concrete) */
#ifdef NUMC0
        if (i == 0) __CPROVER_assume (NUMC0);
#endif
#ifdef NUMC1
        if (i == 1) __CPROVER_assume (NUMC1);
#endif
#ifdef NUMK0
        if (i == 0) { __CPROVER_assume (v == (NUMK0)); v = (NUMK0); }
#endif
#ifdef NUMK1
        if (i == 1) { __CPROVER_assume (v == (NUMK1)); v = (NUMK1); }
#endif
        push_number (v);
        break;
      }
    case KREAL: { double d; uint64_t b = IN.realbits[i]; memcpy (&d, &b, sizeof d); push_real (d); break; }
    case KSTR:
      {
        char *s = new_string (CAP, "vm_step");
        __CPROVER_assume (n <= CAP);
        for (k = 0; k < CAP; k++) { unsigned char c = IN.bytes[i * 8 + k]; __CPROVER_assume (c != 0); s[k] = (k < n) ? (char) c : 0; }
        s[CAP] = 0;
        MSTR_SIZE (s) = (unsigned short) n;         /* counted length = logical length; allocation stays CAP+1 */
        push_malloced_string (s);
        break;
      }
    case KSTRSH:
      {
        char tmp[CAP + 1];
        __CPROVER_assume (n <= CAP);
        for (k = 0; k < CAP; k++) { unsigned char c = IN.bytes[i * 8 + k]; __CPROVER_assume (c != 0); tmp[k] = (k < n) ? (char) c : 0; }
        tmp[CAP] = 0;
        share_and_push_string (tmp);
        break;
      }
    case KARR:
      {
        /* the operand array is a TYPED static object (array header + CAP elements): a malloc'd array is a byte array for
           CBMC and every element tag read back from it forks the recursive free/assign code.  It always has a second
           holder (ref 2), so the step never frees it; freshly built result arrays come from the real allocator. */
        static struct { array_t a; svalue_t rest[CAP + 1]; } SA[3];
        array_t *a = &SA[i].a;
        __CPROVER_assume (n <= CAP && IN.ref[i] == 2);
        for (k = 0; k < CAP; k++) { a->item[k].type = T_NUMBER; a->item[k].subtype = 0; a->item[k].u.number = IN.elem[i * 4 + k]; }
        a->size = (unsigned short) n; a->ref = 2;
        garr[i] = a;
        sp++; sp->type = T_ARRAY; sp->subtype = 0; sp->u.arr = a;
        break;
      }
    case KBUF:
      {
        buffer_t *b = allocate_buffer (CAP);
        __CPROVER_assume (n >= 1 && n <= CAP && IN.ref[i] >= 1 && IN.ref[i] <= 2);
        for (k = 0; k < CAP; k++) b->item[k] = IN.bytes[i * 8 + k];
        b->size = n; b->ref = (unsigned short) IN.ref[i];
        gbuf[i] = b;
        sp++; sp->type = T_BUFFER; sp->subtype = 0; sp->u.buf = b;
        break;
      }
    case KARRM:
      {
        array_t *a = allocate_empty_array (n);
        __CPROVER_assume (IN.ref[i] >= 1 && IN.ref[i] <= 2);
#ifdef REFK
        /* case split: concrete reference count of malloc'd operand arrays (the jobs together cover 1 and 2) */
        __CPROVER_assume (IN.ref[i] == (REFK)); IN.ref[i] = (REFK);
#endif
        if (n > 0) a->ref = (unsigned short) IN.ref[i];      /* 1 = this stack slot is the only holder, 2 = one more holder elsewhere */
        else IN.ref[i] = 0;
        for (k = 0; k < CAP; k++) if (k < n) { a->item[k].type = T_NUMBER; a->item[k].subtype = 0; a->item[k].u.number = IN.elem[i * 4 + k]; }
#ifdef VERIF_ARRAY_ITEMS
        /* the rest of the typed block holds numbers too (a real block ends at item[n]): reading them is not a CBMC bounds
           failure in this encoding; the index oracle reports it instead (an index outside 0..n-1 must raise an error) */
        if (n > 0) for (k = 0; k < VERIF_ARRAY_ITEMS; k++) if (k >= n) { a->item[k].type = T_NUMBER; a->item[k].subtype = 0; a->item[k].u.number = 0x5a5a5a5a; }
#endif
        garr[i] = a; gkind[i] = KARR;
        sp++; sp->type = T_ARRAY; sp->subtype = 0; sp->u.arr = a;
        break;
      }
    case KLVSELF:
      {
        array_t *a = garr[0];
        a->ref++;
        (fp + i)->type = T_ARRAY; (fp + i)->subtype = 0; (fp + i)->u.arr = a;
        lv_slot[i] = i; garr[i] = a;
        sp++; sp->type = T_LVALUE; sp->subtype = 0; sp->u.lvalue = fp + i;
        break;
      }
    case KLVARR: mk_lvalue_to_local (i, KARR); break;
    case KLVSTR: mk_lvalue_to_local (i, KSTR); break;
    case KLVBUF: mk_lvalue_to_local (i, KBUF); break;
    default:
      { object_t *o = IN.dest[i] ? &OBJ_DEAD : &OBJ_LIVE; sp++; sp->type = T_OBJECT; sp->subtype = 0; sp->u.ob = o; o->ref++; break; }
    }
}

static int valid_tag (int t)
{
  return t == T_NUMBER || t == T_STRING || t == T_REAL || t == T_ARRAY || t == T_BUFFER || t == T_OBJECT || t == T_MAPPING || t == T_FUNCTION
    || t == T_CLASS || t == T_LVALUE || t == T_LVALUE_BYTE || t == T_LVALUE_RANGE || t == T_ERROR_HANDLER || t == T_INVALID;
}

/* post-step oracles; called once, either at the forced "Too long evaluation" or when the step raised an LPC error */
static void post_step (int from_error)
{
  svalue_t *p; int k;
  if (post_ran) return;
  post_ran = 1;
#ifdef ORACLE_INDEXREF
  /* C03(6): x[i] / x[<i] on a string or buffer against the mathematical reference over int64 (operands: index, container):
     inside the value -> that byte; outside -> an LPC error (for strings the terminator position i == length reads 0) */
  {
    int64_t v = IN.num[0], n = (int64_t) IN.len[1], pos = INDEXREF_REVERSE ? n - v : v;
    int is_str = (gkind[1] == KSTR), is_arr = (gkind[1] == KARR);
    int inside = pos >= 0 && (pos < n || (is_str && pos == n));
    if (inside)
      {
        if (is_arr)
          {
            /* typed array blocks (VERIF_ARRAY_ITEMS): elements are read precisely at every index */
            VERIF_ASSERT ("C03.index.in_range_returns_that_element", !from_error && sp == sp_base + 1 && sp->type == T_NUMBER && sp->u.number == IN.elem[4 + pos]);
          }
        else
          {
            unsigned char want = (pos == n) ? 0 : IN.bytes[8 + pos];
            /* CBMC 6.11 returns unconstrained values for reads of a trailing item[1] array beyond index 0 (struct hack), so
               for buffers the element value is compared at index 0 only; strings (char *) are compared everywhere */
            VERIF_ASSERT ("C03.index.in_range_returns_that_element", !from_error && sp == sp_base + 1 && sp->type == T_NUMBER && (sp->u.number == (int64_t) want || (!is_str && pos > 0)));
          }
        VERIF_WITNESS ("index_in_range");
      }
    else
      {
        VERIF_ASSERT ("C03.index.out_of_range_raises_error", from_error);
        VERIF_WITNESS ("index_out_of_range");
      }
  }
#endif
#ifdef GEN_LITERAL
  VERIF_ASSERT ("C03.literal.pushes_exactly_the_encoded_value", !from_error && sp == sp_base + 1 && sp->type == T_NUMBER && sp->u.number == IN.num[0]);
#endif
  VERIF_ASSERT ("VM.STACK.sp_inside_stack", sp >= start_of_stack - 1 && sp < end_of_stack + 5);
#ifdef CALL_INHERITED
  VERIF_ASSERT ("C07.call_inherited.runs_the_inherited_function", !from_error && current_prog == &PARENT && pc >= PCODE + 2 && pc <= PCODE + 4);
  { extern int verif_sif_calls, verif_sif_index; VERIF_ASSERT ("C07.call_inherited.frame_built_once_for_the_named_function", verif_sif_calls == 1 && verif_sif_index == 0); }
  VERIF_ASSERT ("C07.call_inherited.function_offset_accumulates", function_index_offset == F0 + INH[0].function_index_offset);
  VERIF_ASSERT ("C07.call_inherited.variable_offset_accumulates", variable_index_offset == V0 + INH[0].variable_index_offset);
  VERIF_ASSERT ("C07.call_inherited.caller_frame_saved", csp->prog == &PROG && csp->function_index_offset == F0 && csp->variable_index_offset == V0);
#else
  VERIF_ASSERT ("VM.STACK.pc_inside_program", pc >= PROG.program && pc <= PROG.program + NCODE + 1);
#endif
  for (k = 0; k < 8; k++) { p = start_of_stack + k; if (p <= sp) VERIF_ASSERT ("VM.STACK.live_slots_have_valid_tags", valid_tag (p->type)); }
#ifdef ORACLE_LVAL
  /* an element lvalue produced by the step points at an element of the indexed container */
  if (!from_error && sp >= start_of_stack && sp->type == T_LVALUE)
    for (k = 0; k < 3; k++)
      {
        if (gkind[k] == KARR && lv_slot[k] >= 0 && sp->u.lvalue != fp + k)
          VERIF_ASSERT ("VM.LVAL.array_element_lvalue_inside_array", sp->u.lvalue >= garr[k]->item && sp->u.lvalue < garr[k]->item + garr[k]->size);
      }
#endif
#ifdef ORACLE_LIMIT
  for (k = 0; k < 8; k++)
    {
      p = start_of_stack + k;
      if (p <= sp && p->type == T_ARRAY) VERIF_ASSERT ("VM.LIMIT.array_size", (int) p->u.arr->size <= CONFIG_INT (__MAX_ARRAY_SIZE__));
      if (p <= sp && p->type == T_BUFFER) VERIF_ASSERT ("VM.LIMIT.buffer_size", (int) p->u.buf->size <= CONFIG_INT (__MAX_BUFFER_SIZE__));
      if (p <= sp && p->type == T_STRING) VERIF_ASSERT ("VM.LIMIT.string_length", (int) strlen (p->u.string) <= CONFIG_INT (__MAX_STRING_LENGTH__));
    }
#endif
  /* what the driver does next on an error: unwind the value stack with the real pop_n_elems (double frees and uses of
     freed values are CBMC 'deallocated' failures) */
#ifndef NO_UNWIND
  if (sp >= sp_base) pop_n_elems ((size_t) (sp - sp_base));
  for (k = 0; k < 3; k++) if (lv_slot[k] >= 0) { free_svalue (fp + k, "harness"); (fp + k)->type = T_NUMBER; }
#endif
  VERIF_ASSERT ("VM.STACK.unwound", sp == sp_base || sp < sp_base);
#ifdef ORACLE_REF
  /* C06: after the step and the unwinding no stack slot holds the universe arrays/buffers any more: a value created with
     ref r (r-1 other holders) must be back at r-1, or be freed exactly when r == 1 (then any access is a CBMC failure) */
  for (k = 0; k < 3; k++)
    {
      if (gkind[k] == KARR && IN.ref[k] == 2 && garr[k] != &the_null_array) VERIF_ASSERT ("VM.REF.array_ref_back_to_other_holders", garr[k]->ref == 1);
      if (gkind[k] == KBUF && IN.ref[k] == 2) VERIF_ASSERT ("VM.REF.buffer_ref_back_to_other_holders", gbuf[k]->ref == 1);
    }
#endif
#ifdef GEN_LITERAL
#endif
  if (from_error) VERIF_WITNESS ("lpc_error_path"); else VERIF_WITNESS ("step_completed");
}

void verif_on_error (void)
{
  /* the first NSTEPS dispatches are the subject; the (NSTEPS+1)-th dispatch trips eval_cost */
  post_step (get_error_state (ES_MAX_EVAL_COST) ? 0 : 1);
}

void harness (void)
{
  int i; static main_options_t o;
  verif_in_init ();
  vm_world_init ();
  init_strings (4, 100);
  CONFIG_INT (__MAX_EVAL_COST__) = 1000; CONFIG_INT (__MAX_ARRAY_SIZE__) = 100; CONFIG_INT (__MAX_BUFFER_SIZE__) = 100;
  CONFIG_INT (__MAX_STRING_LENGTH__) = 100; CONFIG_INT (__MAX_MAPPING_SIZE__) = 100; CONFIG_INT (__MAX_BITFIELD_BITS__) = 64;
#ifdef ORACLE_LIMIT
  __CPROVER_assume (IN.limit[0] >= 1 && IN.limit[0] <= 2 * CAP && IN.limit[1] >= 1 && IN.limit[1] <= 2 * CAP && IN.limit[2] >= 1 && IN.limit[2] <= 2 * CAP);
#endif
  /* program: byte 0 = the opcode under test, operand bytes symbolic */
  CODE[0] = (char) OPC;
#ifdef GEN_LITERAL
  {
    int64_t v = IN.num[0];
    __CPROVER_assume (v < 0 || v > 255);      /* 0..255 go through the push-merging encoder (outside this harness) */
    mem_block[A_PROGRAM].block = genbuf; mem_block[A_PROGRAM].max_size = sizeof genbuf; mem_block[A_PROGRAM].current_size = 0;
    current_block = A_PROGRAM; prog_code = genbuf; prog_code_max = genbuf + sizeof genbuf;
    __CPROVER_file_local_icode_c_write_long_number (v);
    VERIF_ASSERT ("C03.literal.encoder_uses_a_literal_opcode", (unsigned char) genbuf[0] == F_NBYTE || (unsigned char) genbuf[0] == F_NUMBER || (unsigned char) genbuf[0] == F_LONG);
    __CPROVER_assume ((unsigned char) genbuf[0] == OPC);    /* this run decides the values the encoder maps to OPC; the other opcodes have their own runs */
    for (i = 1; i < NCODE; i++) IN.code[i] = (unsigned char) genbuf[i];
  }
#endif
#ifdef OPC2
  CODE[1] = (char) OPC2;
#endif
  for (i = 1; i < NCODE; i++)
#ifdef OPC2
    if (i != 1)
#endif
      CODE[i] = (char) IN.code[i];
  PROG.name = "prog"; PROG.program = CODE; PROG.program_size = NCODE; PROG.strings = STRS; PROG.num_strings = 3; PROG.num_variables_total = 3;
  STRS[0] = make_shared_string ("s0"); STRS[1] = make_shared_string ("s1"); STRS[2] = make_shared_string ("");
  THIS = (object_t *) malloc (sizeof (object_t) + 3 * sizeof (svalue_t));
  __CPROVER_assume (THIS != 0);
  THIS->name = "this"; THIS->flags = 0; THIS->prog = &PROG; THIS->ref = 5;
  OBJ_LIVE.name = "live"; OBJ_LIVE.ref = 5; OBJ_DEAD.name = "dead"; OBJ_DEAD.ref = 5; OBJ_DEAD.flags = O_DESTRUCTED;
  for (i = 0; i < 3; i++) { THIS->variables[i].type = T_NUMBER; THIS->variables[i].subtype = 0; THIS->variables[i].u.number = IN.global[i]; }
  current_object = THIS; current_prog = &PROG; previous_ob = 0; caller_type = ORIGIN_DRIVER; function_index_offset = variable_index_offset = 0;
  /* a function frame with 3 number locals */
  for (i = 0; i < 3; i++) push_number (IN.local[i]);
  fp = start_of_stack;
  push_control_stack (FRAME_FUNCTION);
  csp->num_local_variables = 3;
  sp_base = sp;
  for (i = 0; i < NOPS; i++) mk_value (i, kind_of (i));
#ifdef ORACLE_LIMIT
  /* the symbolic limits apply from here (the operands, built above, respect them by assumption) */
  CONFIG_INT (__MAX_ARRAY_SIZE__) = IN.limit[0]; CONFIG_INT (__MAX_BUFFER_SIZE__) = IN.limit[1]; CONFIG_INT (__MAX_STRING_LENGTH__) = IN.limit[2];
#endif
#ifdef CALL_INHERITED
  __CPROVER_assume (IN.code[1] == 0 && IN.code[2] == 0 && IN.code[3] == 0 && IN.code[4] == 0);     /* inherit 0, function 0, no arguments */
  CODE[1] = CODE[2] = CODE[3] = CODE[4] = 0;
#ifdef CI_OFFS
  { static const int o[4] = { CI_OFFS }; int q; for (q = 0; q < 4; q++) { __CPROVER_assume (IN.limit[q] == o[q]); IN.limit[q] = o[q]; } }      /* concrete offsets per run */
#endif
  __CPROVER_assume (IN.limit[0] >= 0 && IN.limit[0] <= 3 && IN.limit[1] >= 0 && IN.limit[1] <= 3 && IN.limit[2] >= 0 && IN.limit[2] <= 3 && IN.limit[3] >= 0 && IN.limit[3] <= 3);
  PARENT.name = "parent"; PARENT.program = PCODE; PARENT.program_size = sizeof PCODE; PARENT.function_table = PFT; PARENT.function_flags = PFLAGS;
  PARENT.function_offsets = POFF; PARENT.function_compressed = &PCT; PCT.first_defined = 0; PCT.num_deleted = 0;
  PARENT.num_functions_total = 1; PARENT.num_functions_defined = 1;
  PFLAGS[0] = 0; POFF[0].def.f_index = 0; POFF[0].def.num_arg = 0; POFF[0].def.num_local = 0; PFT[0].name = "f"; PFT[0].address = 2;
  PROG.inherit = INH; PROG.num_inherited = 1;
  INH[0].prog = &PARENT; INH[0].function_index_offset = (function_index_t) IN.limit[2]; INH[0].variable_index_offset = (unsigned short) IN.limit[3]; INH[0].type_mod = 0;
  /* the caller itself runs at an arbitrary (small) offset: it may be an inherited program of the object */
  function_index_offset = F0 = IN.limit[0]; variable_index_offset = V0 = IN.limit[1];
#endif
  eval_cost = NSTEPS + 1;
  eval_instruction (CODE);
  /* opcodes that leave eval_instruction (returns) arrive here */
  post_step (0);
  VERIF_WITNESS ("returned_from_eval_instruction");
}
