import os, importlib.util
def _load(pid):
    sp = importlib.util.spec_from_file_location('spec_' + pid, os.path.join(os.path.dirname(os.path.abspath(__file__)), '..', pid, 'spec.py'))
    m = importlib.util.module_from_spec(sp); sp.loader.exec_module(m)
    return m
BASE = ['@world/world_base.c', '@world/libc_models.c', '@world/world_err.c', '@harness/C09/stubs.c']
def jobs(tier, ctx):
    out = []
    for kind in (0, 1):
        out.append(dict(name='process_io.kind%d' % kind, srcs=['@harness/C09/process_io.c'], stubs=BASE, defs=['KIND=%d' % kind], unwind=5,
                        cuts=['flush_message', 'init_console_user'], nobody_ok=['*'], targets=['process_io'], timeout=300, mem_gb=8,
                        opt_witness=['tick_before_any_connection', 'console_completion', 'end'],
                        desc='process_io with 0..1 events (%s) on a connection table that is NULL (idle driver), has an empty console slot, or is populated: no memory error' % ('timer wake-up' if kind == 0 else 'console completion'),
                        inputs='number of events, event type bits, table shape, console queue present, console reconnect outcome',
                        assumptions=['user socket events (get_user_data), listening ports and LPC sockets are not driven by this harness; flush_message and init_console_user are contract stubs']))
    # a failing call_out does not take the other timers with it: the sweep lemma of C10 with an error injected into any subset of
    # the firings (both branches of the per-call recovery point): every other due entry still fires exactly once
    for j in _load('C10').jobs(tier, ctx):
        if j['name'].startswith('L2_sweep'):
            j = dict(j); j['name'] = 'callout_errors.' + j['name']
            j['desc'] = 'call_out() sweep with an error raised in any subset of the firings: the remaining due entries fire exactly once, in order, none repeated; the wheel stays consistent'
            out.append(j)
    # "only the failing object's heart beat is switched off": while the other periodic tasks of a tick run (call_outs, reset /
    # clean_up), no heart beat is marked in progress (error_handler() switches off current_heart_beat)
    n = 0
    for j in _load('C11').jobs(tier, ctx):
        if '.act0.' in j['name'] or '.act3.' in j['name']:
            j = dict(j); j['name'] = 'tick_tasks.' + j['name']
            j['desc'] = 'call_heart_beat() round with reset and call_out timers enabled: when look_for_objects_to_swap() and call_out() run, current_heart_beat is 0 (also after a heart beat that raised an error or changed the table)'
            out.append(j); n += 1
            if tier == 'quick' and n >= 6:
                break
    return out
