BASE = ['@world/world_base.c', '@world/libc_models.c', '@world/world_err.c', '@harness/C09/stubs.c']
def jobs(tier, ctx):
    out = []
    for kind in (0, 1):
        out.append(dict(name='process_io.kind%d' % kind, srcs=['@harness/C09/process_io.c'], stubs=BASE, defs=['KIND=%d' % kind], unwind=5,
                        cuts=['flush_message', 'init_console_user'], nobody_ok=['*'], targets=['process_io'], timeout=300, mem_gb=8,
                        opt_witness=['tick_before_any_connection', 'console_completion', 'end'],
                        desc='process_io with 0..1 events (%s) on a connection table that is NULL (idle driver), has an empty console slot, or is populated: no memory error' % ('timer wake-up' if kind == 0 else 'console completion'),
                        inputs='number of events, event type bits, table shape, console queue present, console reconnect outcome',
                        assumptions=['user socket events (get_user_data), listening ports and LPC sockets are not driven by this harness; flush_message and init_console_user are contract stubs']))
    return out
