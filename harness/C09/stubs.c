#include "all_types.h"
#include "async/async_queue.h"
#include "verif.h"
int c09_reconnect_ok; interactive_t **c09_table; interactive_t *c09_console;
extern interactive_t **all_users; extern int max_users;
/* re-connecting the console user either fails (table untouched) or installs the table and the console slot */
void init_console_user (int reconnect) { (void) reconnect; if (c09_reconnect_ok) { all_users = c09_table; max_users = 3; c09_table[0] = c09_console; } }
bool async_queue_dequeue (async_queue_t *q, void *buf, size_t n, size_t *out) { (void) q; (void) buf; (void) n; (void) out; return false; }
int flush_message (interactive_t *ip) { VERIF_ASSERT ("C09.flush_called_with_a_connection", ip != 0); return 1; }
#include "socket/socket_efuns.h"
/* no LPC efun sockets are open in this harness */
lpc_socket_t *lpc_socks = 0; int max_lpc_socks = 0;
