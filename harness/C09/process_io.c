/* C09(1): event dispatch on a driver with no connection yet / sparse connection table.
 * Real: src/comm.c process_io, is_interactive_user, is_listening_port (via #include).
 * Events: timer wake-up {fd=-1, key=0, context=NULL}, console completion, stale user context.  The connection table is
 * NULL (no connection since start), or an array with NULL holes.
 */
#include "src/comm.c"
#include "verif.h"
#define IN_FIELDS(S,A) S(int, nev) S(int, kind) S(int, table) S(int, have_queue) S(int, reconnect_ok) S(unsigned, evtype)
#include "verif_in.h"
static interactive_t CONSOLE_IP, USER1; static object_t COB, UOB; static interactive_t *TABLE[3]; static int dummy_queue;
extern int c09_reconnect_ok; extern interactive_t **c09_table; extern interactive_t *c09_console;
void verif_on_error (void) { }
void harness (void)
{
  verif_in_init ();
  __CPROVER_assume (IN.nev >= 0 && IN.nev <= 1 && IN.table >= 0 && IN.table <= 2 && IN.kind == KIND);
  CONSOLE_IP.ob = &COB; COB.interactive = &CONSOLE_IP; USER1.ob = &UOB; UOB.interactive = &USER1;
  c09_table = TABLE; c09_console = &CONSOLE_IP; c09_reconnect_ok = IN.reconnect_ok;
  if (IN.table == 0) { all_users = 0; max_users = 0; }                                   /* idle driver: nobody has ever connected */
  else if (IN.table == 1) { all_users = TABLE; max_users = 3; TABLE[0] = 0; TABLE[1] = &USER1; }   /* console slot empty */
  else { all_users = TABLE; max_users = 3; TABLE[0] = &CONSOLE_IP; TABLE[2] = &USER1; }
  g_console_queue = IN.have_queue ? (async_queue_t *) &dummy_queue : 0;
  g_num_io_events = IN.nev;
  g_io_events[0].fd = -1; g_io_events[0].context = 0; g_io_events[0].event_type = IN.evtype; g_io_events[0].completion_key = 0;
  if (IN.kind == 1) g_io_events[0].completion_key = CONSOLE_COMPLETION_KEY;              /* console line(s) ready */
  process_io ();
  if (IN.table == 0) VERIF_WITNESS ("tick_before_any_connection");
  if (IN.kind == 1 && IN.nev == 1 && IN.have_queue) VERIF_WITNESS ("console_completion");
  VERIF_WITNESS ("end");
}
