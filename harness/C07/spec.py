import os, importlib.util
_sp = importlib.util.spec_from_file_location('vmjobs', os.path.join(os.path.dirname(os.path.abspath(__file__)), '..', 'vm', 'vmjobs.py'))
vm = importlib.util.module_from_spec(_sp); _sp.loader.exec_module(vm)
BASE = ['@world/world_base.c', '@world/libc_models.c']
def jobs(tier, ctx):
    out = []
    variants = [('flat', [])] + ([('inherit', ['INHERIT=1'])])
    for (vn, vd) in variants:
        for n1 in range(3):
            for n2 in range(3):
                if tier == 'quick' and n2 == 2 and n1 != 2:
                    continue
                out.append(dict(name='apply_history.%s.n%d_n%d' % (vn, n1, n2), srcs=['@harness/C07/apply_history.c'], stubs=BASE,
                                defs=['NAME1=%d' % n1, 'NAME2=%d' % n2] + vd, unwind=6, targets=['apply_low', 'find_function'], timeout=280, mem_gb=8,
                                opt_witness=['refused_then_allowed', 'allowed_then_refused', 'cache_hit_path'],
                                desc='apply_low(name%d, origin1) [optional] then apply_low(name%d, origin2) on a %s program with symbolic visibility flags: outcome of the 2nd call equals the reference for (program, name, origin) alone' % (n1, n2, vn),
                                inputs='flags of each function, both origins, whether the earlier call happens, #args',
                                assumptions=['function tables satisfy the documented invariants (sorted by name pointer, runtime indices consistent); table construction by the compiler is outside',
                                             'frame set-up, argument set-up and bytecode execution are recording stubs', 'cache starts empty; names at fixed addresses (concrete per run)']))
    # '::' calls: one real step of F_CALL_INHERITED with the frame construction cut to a recording stub
    for (tag, offs) in (('o0000', '0,0,0,0'), ('o1211', '1,2,1,1'), ('o2132', '2,1,3,2'), ('o3303', '3,3,0,3')):
        j = vm.step_job(ctx, 'call_inherited', 'F_CALL_INHERITED', [], extra_defs=['CALL_INHERITED=1', 'CI_OFFS=' + offs], tag=tag,
                        desc="one step of the real eval_instruction: F_CALL_INHERITED ('::' call) into an inherited program, from a caller running at function/variable offsets and with inherit-entry offsets (%s): the inherited program runs with the caller's offsets PLUS the inherit entry's, the caller's frame is saved, the frame is built once for the named function" % offs)
        if j:
            j['unwindset'] = j['unwindset'] + ['harness.4:6']
            j['cuts'] = j['cuts'] + ['setup_inherited_frame']
            j['assumptions'] = j['assumptions'] + ['setup_inherited_frame is a recording stub (frame construction is decided by the C04 frame_setup jobs)']
            out.append(j)
    return out
