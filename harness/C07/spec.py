import os, importlib.util
_sp = importlib.util.spec_from_file_location('vmjobs', os.path.join(os.path.dirname(os.path.abspath(__file__)), '..', 'vm', 'vmjobs.py'))
vm = importlib.util.module_from_spec(_sp); _sp.loader.exec_module(vm)
BASE = ['@world/world_base.c', '@world/libc_models.c']
def jobs(tier, ctx):
    out = []
    variants = [('flat', [])] + ([('inherit', ['INHERIT=1'])])
    for (vn, vd) in variants:
        for n1 in range(3):
            for n2 in range(3):
                if tier == 'quick' and n2 == 2 and n1 != 2:
                    continue
                out.append(dict(name='apply_history.%s.n%d_n%d' % (vn, n1, n2), srcs=['@harness/C07/apply_history.c'], stubs=BASE,
                                defs=['NAME1=%d' % n1, 'NAME2=%d' % n2] + vd, unwind=6, targets=['apply_low', 'find_function'], timeout=280, mem_gb=8,
                                opt_witness=['refused_then_allowed', 'allowed_then_refused', 'cache_hit_path'],
                                desc='apply_low(name%d, origin1) [optional] then apply_low(name%d, origin2) on a %s program with symbolic visibility flags: outcome of the 2nd call equals the reference for (program, name, origin) alone' % (n1, n2, vn),
                                inputs='flags of each function, both origins, whether the earlier call happens, #args',
                                assumptions=['function tables satisfy the documented invariants (sorted by name pointer, runtime indices consistent); table construction by the compiler is outside',
                                             'frame set-up, argument set-up and bytecode execution are recording stubs', 'cache starts empty; names at fixed addresses (concrete per run)']))
    # ('::' calls: a CALL_INHERITED mode of the step engine exists (harness/vm/vm_step.c) but its symex does not finish in 300 s;
    #  not part of any tier)
    return out
