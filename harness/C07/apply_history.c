/* C07: outcome of a call by name depends only on (program, name, kind of caller), never on earlier calls;
 * visibility table; resolver vs reference.  Real: src/apply.c apply_low, find_function, function_visible,
 * find_function_by_name2 (via #include), FIND_FUNC_ENTRY.
 * Names live at fixed integer addresses so that the real cache index expression is a constant per run
 * (NAME1/NAME2 = which of the three names the earlier / the probed call uses).
 */
#include "src/apply.c"
#include "verif.h"
#ifdef VERIF_REPLAY
#include <sys/mman.h>
#endif
#define NBASE ((char *) 0x200000)
#define nA (NBASE + 0)
#define nB (NBASE + 16)
#define nC (NBASE + 32)          /* a name the program does not define */
#define IN_FIELDS(S,A) A(unsigned, flags, 3) S(int, origin1) S(int, origin2) S(int, do_first) S(int, nargs)
#include "verif_in.h"

/* ---- world ---- */
time_t current_time; object_t *current_object, *previous_ob; program_t *current_prog; int caller_type;
int function_index_offset, variable_index_offset;
static control_stack_t cstack[4]; control_stack_t *csp = cstack;
static int ran, ran_index, ran_fio, ran_vio, ran_origin, popped, frames; static program_t *ran_prog; static object_t *ran_ob;
char *findstring (const char *s) { if (s == nA || s == nB || s == nC) return (char *) s; return 0; }
char *ref_string (char *s) { return s; }
void free_string (char *s) { (void) s; }
char *make_shared_string (const char *s) { return (char *) s; }
void push_control_stack (int kind) { csp++; csp->framekind = kind; frames++; }
void setup_variables (int a, int l, int n) { (void) a; (void) l; (void) n; }
void setup_varargs_variables (int a, int l, int n) { (void) a; (void) l; (void) n; }
void pop_n_elems (size_t n) { popped += (int) n + 1000; }
void eval_instruction (const char *pc)
{
  (void) pc;
  ran++; ran_prog = current_prog; ran_index = csp->fr.table_index; ran_fio = function_index_offset; ran_vio = variable_index_offset;
  ran_origin = caller_type; ran_ob = current_object;
}
runtime_function_u *find_func_entry (const program_t *p, int i) { (void) p; (void) i; VERIF_UNREACHABLE ("find_func_entry"); return 0; }

/* ---- program P (object's program) optionally inheriting Q ---- */
static program_t P, Q; static object_t OB;
static compiler_function_t Pft[2], Qft[1];
static function_flags_t Pflags[3], Qflags[1];
static runtime_function_u Poff[3], Qoff[1];
static compressed_offset_table_t Pc, Qc; static inherit_t Pinh[1];

static int valid_origin (int o) { return o == ORIGIN_DRIVER || o == ORIGIN_CALL_OTHER || o == ORIGIN_CALL_OUT || o == ORIGIN_LOCAL; }
/* reference, from the statement: static/private/protected functions are never run by another object's call_other */
static int ref_visible (int origin, unsigned fl) { return !(origin == ORIGIN_CALL_OTHER && (fl & (NAME_STATIC | NAME_PRIVATE | NAME_PROTECTED))); }

static char *NAME (int k) { return k == 0 ? nA : k == 1 ? nB : nC; }

void harness (void)
{
  int r1 = 0, r2, k2 = NAME2, i;
  unsigned mods = NAME_STATIC | NAME_PRIVATE | NAME_PROTECTED | NAME_TRUE_VARARGS | NAME_NO_MASK | NAME_PUBLIC | NAME_VARARGS | NAME_STRICT_TYPES;
  verif_in_init ();
#ifdef VERIF_REPLAY
  if (mmap (NBASE, 4096, PROT_READ | PROT_WRITE, MAP_PRIVATE | MAP_ANONYMOUS | MAP_FIXED, -1, 0) != (void *) NBASE) _exit (76);
#else
  __CPROVER_allocated_memory (0x200000, 48);
#endif
  nA[0] = 'a'; nA[1] = 0; nB[0] = 'b'; nB[1] = 0; nC[0] = 'c'; nC[1] = 0;
  for (i = 0; i < 3; i++) __CPROVER_assume ((IN.flags[i] & ~mods) == 0);
  __CPROVER_assume (valid_origin (IN.origin1) && valid_origin (IN.origin2) && IN.nargs >= 0 && IN.nargs <= 2);
  /* P defines "a" (table index 0) and, in the INHERIT variant, gets "b" from Q; otherwise defines "b" itself */
  P.id_number = 77; P.function_table = Pft; P.function_flags = Pflags; P.function_offsets = Poff; P.function_compressed = &Pc;
  Pc.first_defined = 0; Pc.num_deleted = 0;
  Q.id_number = 78; Q.function_table = Qft; Q.function_flags = Qflags; Q.function_offsets = Qoff; Q.function_compressed = &Qc;
  Pft[0].name = nA; Pflags[0] = IN.flags[0];
#ifdef INHERIT
  /* runtime table of P: [0] inherited b (from Q, visibility modifiers of the inherit statement), [1] own a */
  P.num_functions_defined = 1; P.num_inherited = 1; P.inherit = Pinh; P.num_functions_total = 2;
  Pinh[0].prog = &Q; Pinh[0].function_index_offset = 0; Pinh[0].variable_index_offset = 3;
  Pft[0].runtime_index = 1; Pflags[1] = IN.flags[0]; Poff[1].def.f_index = 0; Poff[1].def.num_arg = 1; Poff[1].def.num_local = 1;
  Pflags[0] = IN.flags[1] | NAME_INHERITED; Poff[0].inh.offset = 0; Poff[0].inh.index = 0;
  Q.num_functions_defined = 1; Q.num_functions_total = 1; Qft[0].name = nB; Qft[0].runtime_index = 0; Qflags[0] = IN.flags[2] & ~(NAME_STATIC | NAME_PRIVATE | NAME_PROTECTED);
  Qoff[0].def.f_index = 0; Qoff[0].def.num_arg = 0; Qoff[0].def.num_local = 0;
#else
  P.num_functions_defined = 2; P.num_inherited = 0; P.num_functions_total = 2;
  Pft[0].runtime_index = 0; Poff[0].def.f_index = 0; Poff[0].def.num_arg = 1; Poff[0].def.num_local = 2;
  Pft[1].name = nB; Pft[1].runtime_index = 1; Pflags[1] = IN.flags[1]; Poff[1].def.f_index = 1; Poff[1].def.num_arg = 0; Poff[1].def.num_local = 0;
#endif
  OB.prog = &P; OB.flags = 0;
  /* earlier call (may be skipped) */
  if (IN.do_first)
    {
      call_origin = IN.origin1;
      r1 = apply_low (NAME (NAME1), &OB, IN.nargs);
    }
  ran = 0; popped = 0; frames = 0; csp = cstack; current_object = 0; current_prog = 0;
  /* the probed call */
  call_origin = IN.origin2;
  r2 = apply_low (NAME (k2), &OB, IN.nargs);
  {
    int defined = (k2 == 0 || k2 == 1);
    unsigned fl = 0; program_t *dprog = &P; int didx = 0, dfio = 0, dvio = 0;
#ifdef INHERIT
    if (k2 == 0) { fl = IN.flags[0]; }
    else if (k2 == 1) { fl = IN.flags[1]; dprog = &Q; didx = 0; dfio = 0; dvio = 3; }
#else
    if (k2 == 0) fl = IN.flags[0]; else if (k2 == 1) { fl = IN.flags[1]; didx = 1; }
#endif
    if (!defined) VERIF_ASSERT ("C07.undefined_function_not_called", r2 == 0 && ran == 0);
    else if (!ref_visible (IN.origin2, fl))
      VERIF_ASSERT ("C07.restricted_function_refused_for_call_other", r2 == 0 && ran == 0);
    else
      {
        if (IN.do_first && IN.origin1 == ORIGIN_CALL_OTHER && NAME1 == NAME2 && !ref_visible (ORIGIN_CALL_OTHER, fl))
          VERIF_ASSERT ("C07.allowed_call_succeeds_after_refused_call_other", r2 == 1 && ran == 1);
        else
          VERIF_ASSERT ("C07.allowed_call_succeeds", r2 == 1 && ran == 1);
        if (ran == 1)
          VERIF_ASSERT ("C07.runs_the_resolved_definition", ran_prog == dprog && ran_index == didx && ran_fio == dfio && ran_vio == dvio
                        && ran_ob == &OB && ran_origin == IN.origin2 && frames == 1);
      }
    if (r2 == 0) VERIF_ASSERT ("C07.failed_call_pops_arguments_once", popped == IN.nargs + 1000 && frames == 0);
    else VERIF_ASSERT ("C07.successful_call_leaves_arguments_to_callee", popped == 0);
    if (IN.do_first && r1 == 0 && r2 == 1) VERIF_WITNESS ("refused_then_allowed");
    if (IN.do_first && r1 == 1 && r2 == 0) VERIF_WITNESS ("allowed_then_refused");
    if (IN.do_first && r1 == 1 && r2 == 1) VERIF_WITNESS ("cache_hit_path");
  }
  VERIF_WITNESS ("end");
}
