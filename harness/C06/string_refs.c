/* C06: shared-string reference counting incl. saturation.  Real: src/stralloc.c make_shared_string, ref_string,
 * free_string (and the table they maintain), lib/misc/hash.c.
 * A string with H holders: its block stays allocated and findable while H > 0.  The 16-bit counter saturates: once it
 * wrapped to 0 the string is immortal (never freed, never counted again).  From ANY counter value c (symbolic,
 * including 0xFFFE, 0xFFFF, 0) one ref_string / free_string keeps:  freed  <=>  (c == 1 and the op was a free).
 */
#include "src/stralloc.c"
#include "verif.h"
#define IN_FIELDS(S,A) S(unsigned, c) S(int, op) A(char, name, 3)
#include "verif_in.h"
void verif_on_error (void) { }
void harness (void)
{
  char *s, *f; block_t *b; char nm[3]; unsigned c;
  verif_in_init ();
  init_strings (4, 100);
  nm[0] = 'a'; nm[1] = 'b'; nm[2] = 0;      /* concrete name: a symbolic one makes the bucket index symbolic (no verdict at 6 GB) */
  s = make_shared_string (nm);
  b = BLOCK (s);
  VERIF_ASSERT ("C06.str.new_string_has_one_ref", REFS (b) == 1 && findstring (nm) == s);
  c = IN.c & 0xffff;
  REFS (b) = (unsigned short) c;              /* any counter value a history of holders can have produced */
  if (IN.op == 0)
    {
      char *r = ref_string (s);
      VERIF_ASSERT ("C06.str.ref_returns_same", r == s);
      if (c == 0) VERIF_ASSERT ("C06.str.saturated_counter_stays_saturated", REFS (b) == 0);
      else VERIF_ASSERT ("C06.str.ref_counts_up_or_saturates", REFS (b) == (unsigned short) (c + 1));
      VERIF_ASSERT ("C06.str.still_findable_after_ref", findstring (nm) == s);
      if (c == 0xffff) VERIF_WITNESS ("wrap_to_immortal");
    }
  else
    {
      free_string (s);
      f = findstring (nm);
      if (c == 0) VERIF_ASSERT ("C06.str.immortal_string_never_freed", f == s && REFS (b) == 0);
      else if (c == 1) { VERIF_ASSERT ("C06.str.last_holder_frees", f == 0); VERIF_WITNESS ("freed"); }
      else VERIF_ASSERT ("C06.str.other_holders_keep_it", f == s && REFS (b) == (unsigned short) (c - 1));
    }
  VERIF_WITNESS ("end");
}
