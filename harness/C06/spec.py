import os, importlib.util
_sp = importlib.util.spec_from_file_location('vmjobs', os.path.join(os.path.dirname(os.path.abspath(__file__)), '..', 'vm', 'vmjobs.py'))
vm = importlib.util.module_from_spec(_sp); _sp.loader.exec_module(vm)

def jobs(tier, ctx):
    out = []
    def add(*a, **k):
        j = vm.step_job(ctx, 'ref', *a, **k)
        if j: out.append(j)
    # REF oracle on the VM step engine: after the step and the stack unwinding every universe value is back at the count of
    # its other holders; a value with a single holder is freed exactly once (double free / use after free = CBMC failures)
    for (op, kinds) in (('F_ADD', ['BUF', 'BUF']), ('F_ADD', ['STR', 'STR']), ('F_ADD', ['ARRM', 'NUM']), ('F_INDEX', ['NUM', 'BUF']), ('F_INDEX', ['NUM', 'STR']),
                        ('F_POP_VALUE', ['BUF']), ('F_POP_VALUE', ['ARRM']), ('F_NN_RANGE', ['NUM', 'NUM', 'BUF']), ('F_RR_RANGE', ['NUM', 'NUM', 'STR']),
                        ('F_EQ', ['ARRM', 'ARRM']), ('F_EQ', ['BUF', 'BUF']), ('F_NE', ['STR', 'STR']), ('F_NOT', ['ARRM']), ('F_NEGATE', ['BUF']), ('F_LT', ['STR', 'STR'])):
        add(op, kinds, oracle=['REF'], extra_defs=['LENK%d=2' % i for i, k in enumerate(kinds) if k == 'ARRM'], typed_arrays=(8 if 'ARRM' in kinds else 0))
    out.append(dict(name='string_refs', srcs=['@harness/C06/string_refs.c', 'lib/misc/hash.c'], stubs=['@world/world_base.c', '@world/libc_models.c', '@world/world_err.c'], unwind=8,
                    targets=['ref_string', 'free_string', 'make_shared_string'], timeout=300, mem_gb=6, opt_witness=['wrap_to_immortal', 'freed'],
                    desc='shared string with ANY 16-bit counter value (incl. 0xFFFE, 0xFFFF, saturated 0): one ref_string or free_string: freed iff it was the last holder; a saturated string is immortal',
                    inputs='counter value, operation', assumptions=['one string in a 4-bucket table']))
    # pending call_outs own their argument arrays: released exactly once when fired, dropped (destructed owner) or on error
    _c10 = importlib.util.spec_from_file_location('c10spec', os.path.join(os.path.dirname(os.path.abspath(__file__)), '..', 'C10', 'spec.py'))
    c10 = importlib.util.module_from_spec(_c10); _c10.loader.exec_module(c10)
    for j in c10.jobs(tier, ctx):
        if j['name'].startswith('L2_sweep'):
            j = dict(j); j['name'] = 'callout_args.' + j['name']; j['defs'] = list(j['defs']) + ['WITH_ARGS=1']
            j['desc'] = 'call_out() sweep where every pending call owns an argument array: released exactly once when fired or dropped for a destructed owner; kept while pending'
            j['opt_witness'] = list(j.get('opt_witness', [])) + ['error_branch']
            out.append(j)
    return out
