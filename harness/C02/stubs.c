#include "all_types.h"
#include "lpc/compiler.h"
#include "lpc/identifier.h"
#include "verif.h"
ident_hash_elem_t ID[4]; int yyerrors;
ident_hash_elem_t *find_or_add_ident (const char *name, int flags) { (void) flags; return &ID[(name[0] - '0') & 3]; }
void yyerror (const char *s) { (void) s; yyerrors++; }
