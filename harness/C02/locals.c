/* C02(2): local-variable bookkeeping of the compiler across nested function literals.
 * Real: lib/lpc/compiler.c init_locals, add_local_name, reallocate_locals, deactivate_current_locals,
 * reactivate_current_locals, pop_n_locals, free_all_local_names (via #include of compiler.c).
 * The function-literal prologue/epilogue are bison actions (lib/lpc/grammar.y, rule `L_BASIC_TYPE` inside expr4, the
 * statements quoted below with their source); they cannot be called, so they are replayed verbatim.
 * num_local_variables_allowed = ALLOWED (the code is parametric in it).  Nesting depth <= DEPTH, at each level a
 * symbolic number of locals (0..ALLOWED+1: one more than allowed, to exercise the "too many" path).
 * Every write into locals[], type_of_locals[], runtime_locals[] must stay inside the blocks as actually allocated by the
 * real init_locals / reallocate_locals (CBMC bounds checks on the real allocations); afterwards every identifier is
 * back to "not a local" (reusability of the compiler).
 */
#include "lib/lpc/compiler.c"
#include "verif.h"
#ifndef DEPTH
#define DEPTH 2
#endif
#define IN_FIELDS(S,A) A(int, nloc, DEPTH + 1)
#include "verif_in.h"
void verif_on_error (void) { }
extern ident_hash_elem_t ID[4]; extern int yyerrors;
static char *nm (int k) { static char n0[] = "0", n1[] = "1", n2[] = "2", n3[] = "3"; switch (k & 3) { case 0: return n0; case 1: return n1; case 2: return n2; default: return n3; } }

static int saved_num_local[DEPTH + 1], saved_max[DEPTH + 1];
static void add_locals (int level)
{
  int k;
  /* counts concrete per run (NLOC0..): a symbolic count makes the table index symbolic and CBMC loses the stored pointers */
  { static const int fix[4] = { NLOC0, NLOC1, NLOC2, NLOC3 }; __CPROVER_assume (IN.nloc[level] == fix[level]); IN.nloc[level] = fix[level]; }
  for (k = 0; k < ALLOWED + 1; k++) if (k < IN.nloc[level]) add_local_name (nm (k + level), 1);
}
static void enter_function_literal (int level)
{
  /* grammar.y, expr4: L_BASIC_TYPE  { ... } */
  saved_num_local[level] = current_number_of_locals;            /* $<func_block>$.num_local = (char)current_number_of_locals; */
  saved_max[level] = max_num_locals;                            /* $<func_block>$.max_num_locals = (char)max_num_locals; */
  if (type_of_locals_ptr + max_num_locals + num_local_variables_allowed >= &type_of_locals[type_of_locals_size])
    reallocate_locals ();
  deactivate_current_locals ();
  locals_ptr += current_number_of_locals;
  type_of_locals_ptr += max_num_locals;
  runtime_locals_ptr += current_number_of_locals;
  max_num_locals = current_number_of_locals = 0;
}
static void leave_function_literal (int level)
{
  /* grammar.y, end of the function literal: the literal's own locals are released, then */
  free_all_local_names ();
  current_number_of_locals = saved_num_local[level];            /* current_number_of_locals = $<func_block>2.num_local; */
  max_num_locals = saved_max[level];                            /* max_num_locals = $<func_block>2.max_num_locals; */
  locals_ptr -= current_number_of_locals;
  type_of_locals_ptr -= max_num_locals;
  runtime_locals_ptr -= current_number_of_locals;
  reactivate_current_locals ();
}

void harness (void)
{
  int i, level;
  verif_in_init ();
  num_local_variables_allowed = ALLOWED;
  for (i = 0; i < 4; i++) { ID[i].dn.local_num = -1; ID[i].sem_value = 0; }
  init_locals ();
  __CPROVER_assume (type_of_locals && locals && runtime_locals);
  add_locals (0);
#ifdef SIBLING
  /* sibling blocks: { int a, b; } { int c, d; } ... the slots are not reused, so the total number of slots is what the
     limit applies to; every further declaration must be rejected without touching memory */
  for (i = 0; i < SIBLING; i++) { pop_n_locals (current_number_of_locals); add_locals (0); }
  VERIF_ASSERT ("C02.locals.slot_count_never_exceeds_limit", max_num_locals <= ALLOWED);
#endif
  for (level = 1; level <= DEPTH; level++) { enter_function_literal (level); add_locals (level); }
  VERIF_WITNESS ("deepest_level");
  for (level = DEPTH; level >= 1; level--) leave_function_literal (level);
  VERIF_ASSERT ("C02.locals.cursors_back_at_base", locals_ptr == locals && type_of_locals_ptr == type_of_locals && runtime_locals_ptr == runtime_locals);
  free_all_local_names ();
  for (i = 0; i < 4; i++) VERIF_ASSERT ("C02.locals.no_identifier_keeps_a_stale_local_binding", ID[i].dn.local_num == -1);   /* (sem_value may stay positive: reactivate_current_locals re-counts; it only delays freeing the identifier) */
  if (yyerrors) VERIF_WITNESS ("too_many_locals_reported");
  VERIF_WITNESS ("end");
}
