BASE = ['@world/world_base.c', '@world/libc_models.c', '@world/world_err.c', '@harness/C02/stubs.c']
def jobs(tier, ctx):
    out = []
    combos = []
    for (allowed, depth) in ([(2, 2), (3, 1)] if tier == 'quick' else [(2, 1), (2, 2), (2, 3), (3, 1), (3, 2)]):
        pats = [[allowed] * 4, [allowed + 1] * 4, [1, allowed, 0, allowed], [0, 0, allowed, 1], [allowed, 1, allowed + 1, 0]]
        for p_ in (pats if tier != 'quick' else pats[:4]):
            combos.append((allowed, depth, p_))
    for (allowed, depth, pat) in combos:
        out.append(dict(name='locals.a%d_d%d.n%s' % (allowed, depth, ''.join(str(x) for x in pat[:depth + 1])), srcs=['@harness/C02/locals.c'], stubs=BASE, defs=['ALLOWED=%d' % allowed, 'DEPTH=%d' % depth] + ['NLOC%d=%d' % (i, pat[i]) for i in range(4)], unwind=8,
                        cuts=['yyerror'], nobody_ok=['*'], targets=['add_local_name', 'reallocate_locals', 'init_locals', 'deactivate_current_locals'], timeout=400, mem_gb=8,
                        opt_witness=['too_many_locals_reported', 'deepest_level', 'end'],
                        desc='local-variable tables across %d nested function literals with %d locals allowed, locals per level as in the job name: every write stays inside the really allocated blocks; all identifiers unbound afterwards' % (depth, allowed),
                        inputs='number of locals declared at each nesting level',
                        assumptions=['the grammar actions of the function-literal rule are replayed verbatim in the harness (bison actions cannot be called)', 'identifier table replaced by 4 static identifiers']))
    for sib in (1, 2):
        out.append(dict(name='locals.sibling%d' % sib, srcs=['@harness/C02/locals.c'], stubs=BASE, defs=['ALLOWED=2', 'DEPTH=0', 'SIBLING=%d' % sib, 'NLOC0=2', 'NLOC1=0', 'NLOC2=0', 'NLOC3=0'], unwind=8,
                        cuts=['yyerror'], nobody_ok=['*'], targets=['add_local_name', 'pop_n_locals'], timeout=300, mem_gb=6, opt_witness=['too_many_locals_reported', 'deepest_level', 'end'],
                        desc='%d sibling block(s) each declaring 2 locals with 2 locals allowed in total: further declarations are rejected, no write outside the tables' % (sib + 1),
                        inputs='(concrete script)', assumptions=['block exit = pop_n_locals of the block locals, as the grammar does']))
    out.append(dict(name='lexer_end', srcs=['@harness/C02/lexer_end.c'], stubs=['@world/world_base.c', '@world/libc_models.c', '@world/world_err.c'], unwind=5, nobody_ok=['*'],
                    targets=['end_new_file'], timeout=300, mem_gb=6, opt_witness=['open_conditionals', 'open_includes'],
                    desc='end_new_file() from a lexer left with 0..2 open #include files, 0..3 open #if levels and an extra line buffer: no include, no conditional level and no extra line buffer survives into the next compilation',
                    inputs='numbers of open includes / conditionals / line buffers, conditional states', assumptions=['#define table release (free_defines) is outside this job']))
    return out
