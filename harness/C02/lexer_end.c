/* C02: "after a failed or successful compilation, compiling any other file gives the same program as in a fresh driver":
 * whatever state the lexer was left in when a compilation ended (open #include files, open #if / #ifdef levels - e.g. after
 * a fatal lex error inside a conditional or an early abort of the parse - and extra line buffers), end_new_file() returns
 * the preprocessor to its start state.  Real: lib/lpc/lex.c end_new_file.
 */
#include "lib/lpc/lex.c"
#include "verif.h"
#define IN_FIELDS(S,A) S(int, ninc) S(int, nif) A(int, ifstate, 3) S(int, nlbuf)
#include "verif_in.h"
void verif_on_error (void) { }
static int closed_fds, strings_released;
int close (int fd) { (void) fd; closed_fds++; return 0; }
void free_string (char *s0) { (void) s0; strings_released++; }
static char f0[] = "a.c", f1[] = "b.h", f2[] = "c.h";
void harness (void)
{
  int i; char *names[3] = { f0, f1, f2 };
  verif_in_init ();
  __CPROVER_assume (IN.ninc >= 0 && IN.ninc <= 2 && IN.nif >= 0 && IN.nif <= 3 && IN.nlbuf >= 0 && IN.nlbuf <= 1);
  current_file = names[0]; yyin_desc = 3;
  for (i = 0; i < 2; i++)
    if (i < IN.ninc)
      {
        incstate_t *p = (incstate_t *) malloc (sizeof (incstate_t));
        __CPROVER_assume (p != 0);
        p->next = inctop; p->yyin_desc = yyin_desc; p->file = current_file; p->line = 1; p->file_id = 0; p->last_nl = 0; p->outptr = 0;
        inctop = p; current_file = names[i + 1]; yyin_desc = 4 + i;
      }
  for (i = 0; i < 3; i++)
    if (i < IN.nif)
      {
        ifstate_t *p = (ifstate_t *) malloc (sizeof (ifstate_t));
        __CPROVER_assume (p != 0);
        p->next = iftop; p->state = IN.ifstate[i]; iftop = p;
      }
  cur_lbuf = &head_lbuf;
  if (IN.nlbuf)
    {
      linked_buf_t *b = (linked_buf_t *) malloc (sizeof (linked_buf_t));
      __CPROVER_assume (b != 0);
      b->prev = cur_lbuf; cur_lbuf = b;
    }
  defines_need_freed = 0;
  end_new_file ();
  VERIF_ASSERT ("C02.lexer.no_include_left_open", inctop == 0 && closed_fds == IN.ninc && current_file == names[0]);
  VERIF_ASSERT ("C02.lexer.no_conditional_left_open", iftop == 0);
  VERIF_ASSERT ("C02.lexer.line_buffers_back_to_the_first", cur_lbuf == &head_lbuf);
  if (IN.nif >= 2) VERIF_WITNESS ("open_conditionals");
  if (IN.ninc >= 1) VERIF_WITNESS ("open_includes");
  VERIF_WITNESS ("end");
}
