/* C08: the move_object() efun never moves a destructed object, however the destination is given.
 * Real: lib/efuns/inventory.c f_move_object.  A destination given by name is resolved by find_or_load_object(), which may
 * load the destination and run its create(): that callback is LPC code and may destruct the calling object (havoc).
 * move_object() itself is decided by move_object.destN; here it is a stub recording what it is asked to move.
 */
#include "lib/efuns/inventory.c"
#include "verif.h"
#define IN_FIELDS(S,A) S(int, by_name) S(int, found) S(int, visible) S(int, create_destructs_caller) S(int, caller_destructed_before) S(int, dest_flags)
#include "verif_in.h"
void verif_on_error (void) { }
static object_t CALLER, DEST; static svalue_t STK[4]; static char name[] = "room"; static int moved, popped, errors;
svalue_t *sp; object_t *current_object;
object_t *find_or_load_object (const char *s)
{
  VERIF_ASSERT ("C08.efun_move.name_argument", s == name);
  /* loading runs the destination's create(): arbitrary LPC code, which may destruct the caller */
  if (IN.create_destructs_caller) CALLER.flags |= O_DESTRUCTED;
  return IN.found ? &DEST : 0;
}
int object_visible (object_t *ob) { (void) ob; return IN.visible != 0; }
void move_object (object_t *item, object_t *dest)
{
  moved++;
  VERIF_ASSERT ("C08.efun_move.never_moves_a_destructed_object", !(item->flags & O_DESTRUCTED));
  VERIF_ASSERT ("C08.efun_move.moves_the_caller_to_the_destination", item == &CALLER && dest == &DEST);
}
void pop_stack (void) { popped++; sp--; }
void error (const char *fmt, ...) { (void) fmt; errors++; VERIF_WITNESS ("efun_raised_error"); VERIF_END_PATH (); for (;;) ; }
void harness (void)
{
  verif_in_init ();
  CALLER.name = "caller"; DEST.name = "room"; CALLER.ref = DEST.ref = 5;
  CALLER.flags = IN.caller_destructed_before ? O_DESTRUCTED : 0;
  DEST.flags = IN.dest_flags & ~O_DESTRUCTED;        /* destructed objects on the stack read as 0 before an efun sees them */
  current_object = &CALLER;
  sp = &STK[1];
  if (IN.by_name) { sp->type = T_STRING; sp->subtype = STRING_CONSTANT; sp->u.string = name; }
  else { sp->type = T_OBJECT; sp->subtype = 0; sp->u.ob = &DEST; }
  f_move_object ();
  VERIF_ASSERT ("C08.efun_move.moved_once_and_argument_popped", moved == 1 && popped == 1 && sp == &STK[0]);
  if (IN.by_name) VERIF_WITNESS ("destination_by_name");
  VERIF_WITNESS ("end");
}
