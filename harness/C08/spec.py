BASE = ['@world/world_base.c', '@world/libc_models.c', '@world/world_err.c', '@world/vm_world.c']
def jobs(tier, ctx):
    out = []
    for dest in ((1, 3) if tier == 'quick' else (1, 2, 3)):
        out.append(dict(name='move_object.dest%d' % dest, srcs=['@harness/C08/move.c', 'src/simulate.c'], stubs=BASE, defs=['DEST=%d' % dest, 'VMW_HAVE_SIMULATE=1'], unwind=6,
                        nobody_ok=['*'], targets=['move_object'], timeout=700, mem_gb=8, opt_witness=['plain_move', 'move_with_init_callbacks', 'move_raised_error'],
                        desc='move_object(item 0, %s) from any forest over 3 objects with any command/destructed flags; each init() callback replaces the graph by another arbitrary forest and may raise an error: forest invariant after, at every callback, and on the error path' % ('object %d' % dest if dest < 3 else 'no environment'),
                        inputs='parent pointers, flags, havoc forests and destruct flags for the first 2 callbacks, error choices',
                        assumptions=['callbacks = havoc to any forest state (later callbacks leave the graph alone); command sentences empty; 3 objects']))
    # destruct_object: the recursive destruct cascade with a havoc callback does not finish (> 1500 s); not part of any tier
    import os
    if os.environ.get('C08_EXPERIMENTAL'):
      out.append(dict(name='destruct_object', srcs=['@harness/C08/move.c', 'src/simulate.c'], stubs=BASE, defs=['DEST=1', 'MODE_DESTRUCT=1', 'NHAVOC=1', 'NO_COMMANDS=1', 'VMW_HAVE_SIMULATE=1'], unwind=5,
                    unwindset=['destruct_object:3', 'move_object:2', 'destruct_object.0:4'], nobody_ok=['*'], targets=['destruct_object'], timeout=700, mem_gb=10,
                    opt_witness=['destructed', 'destruct_with_move_or_destruct_callbacks', 'move_raised_error', 'end'],
                    desc='destruct_object(object 0) from any forest over 3 objects; every move_or_destruct() callback of a content replaces the graph by another arbitrary forest (it may move object 0 itself) and may raise an error: afterwards the destructed object is in no inventory, holds nothing, is off the object list, and the forest invariant holds (also at every callback and on the error path)',
                    inputs='parent pointers, flags, havoc forest and destruct flags for the first callback, error choices',
                    assumptions=['the first callback = havoc to any forest state (later callbacks leave the graph alone); name hash, living names, heart beats, connections and sentences are contract stubs; not master / simul_efun object; 3 objects']))
    out.append(dict(name='efun_move', srcs=['@harness/C08/efun_move.c'], stubs=['@world/world_base.c'], unwind=3, nobody_ok=['*'], targets=['f_move_object'], timeout=200, mem_gb=4,
                    opt_witness=['efun_raised_error', 'destination_by_name'],
                    desc='move_object() efun with the destination given as object or by name; resolving a name may load the destination, whose create() may destruct the caller: move_object() is never asked to move a destructed object',
                    inputs='destination kind, lookup outcome, visibility, whether create() destructs the caller, caller state before',
                    assumptions=['find_or_load_object = havoc (may destruct the caller, may fail); move_object itself is decided by move_object.destN']))
    return out
