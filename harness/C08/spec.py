BASE = ['@world/world_base.c', '@world/libc_models.c', '@world/world_err.c', '@world/vm_world.c']
def jobs(tier, ctx):
    out = []
    for dest in ((1, 3) if tier == 'quick' else (1, 2, 3)):
        out.append(dict(name='move_object.dest%d' % dest, srcs=['@harness/C08/move.c', 'src/simulate.c'], stubs=BASE, defs=['DEST=%d' % dest, 'VMW_HAVE_SIMULATE=1'], unwind=6,
                        nobody_ok=['*'], targets=['move_object'], timeout=700, mem_gb=8, opt_witness=['plain_move', 'move_with_init_callbacks', 'move_raised_error'],
                        desc='move_object(item 0, %s) from any forest over 3 objects with any command/destructed flags; each init() callback replaces the graph by another arbitrary forest and may raise an error: forest invariant after, at every callback, and on the error path' % ('object %d' % dest if dest < 3 else 'no environment'),
                        inputs='parent pointers, flags, havoc forests and destruct flags for the first 2 callbacks, error choices',
                        assumptions=['callbacks = havoc to any forest state (later callbacks leave the graph alone); command sentences empty; 3 objects']))
    return out
