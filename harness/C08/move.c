/* C08: inventories form a forest that agrees with each object's environment, across move_object incl. init() callbacks.
 * Real: src/simulate.c move_object (and remove_sent).  Universe: 3 objects as SEPARATE statics (rule 9).
 * Pre-state: any forest over the 3 objects (parent pointers symbolic, acyclic), any ENABLE_COMMANDS / DESTRUCTED flags.
 * Every init() callback (apply stub) replaces the object graph by ANOTHER arbitrary forest (havoc-to-Inv: whatever LPC
 * code did with move_object/destruct in between) and may raise an error.  The forest invariant must hold afterwards, on
 * the error path too, and on a plain successful move the item is in its destination.
 */
#include "all_types.h"
#include "lpc/include/origin.h"
#include "verif.h"
#define NO 3
#define IN_FIELDS(S,A) A(int, parent, NO) A(int, flags, NO) A(int, hparent, 2 * NO) A(int, hdest, 2 * NO) A(int, herr, 2) S(int, dest)
#include "verif_in.h"
void move_object (object_t *item, object_t *dest);
void destruct_object (object_t *ob);
extern object_t *obj_list, *obj_list_destruct;
static object_t A0, A1, A2; static int callbacks, errored;
static object_t *OP (int i) { switch (i) { case 0: return &A0; case 1: return &A1; case 2: return &A2; default: return 0; } }
static int idx (object_t *o) { if (o == &A0) return 0; if (o == &A1) return 1; if (o == &A2) return 2; return -1; }

static int acyclic (const int *p)
{
  int i;
  for (i = 0; i < NO; i++) if (p[i] < -1 || p[i] >= NO || p[i] == i) return 0;
  for (i = 0; i < NO; i++)
    {
      int a = p[i], b, c;
      if (a >= 0) { b = p[a]; if (b == i) return 0; if (b >= 0) { c = p[b]; if (c == i || c >= 0) return 0; } }
    }
  return 1;
}
static void build_forest (const int *p)
{
  int i;
  for (i = 0; i < NO; i++) { OP (i)->super = 0; OP (i)->contains = 0; OP (i)->next_inv = 0; }
  for (i = 0; i < NO; i++) if (p[i] >= 0) { OP (i)->super = OP (p[i]); OP (i)->next_inv = OP (p[i])->contains; OP (p[i])->contains = OP (i); }
}
/* Inv: x is on exactly one inventory list iff it has an environment, and that list is its environment's; no cycles */
static int forest_inv (void)
{
  int i, j, k; object_t *o;
  for (i = 0; i < NO; i++)
    {
      int seen = 0;
      for (j = 0; j < NO; j++)
        for (o = OP (j)->contains, k = 0; o && k < NO + 1; o = o->next_inv, k++)
          {
            if (k == NO) return 0;                     /* list longer than the universe: a cycle */
            if (idx (o) < 0) return 0;
            if (o == OP (i)) { seen++; if (OP (i)->super != OP (j)) return 0; }
          }
      if (seen != (OP (i)->super ? 1 : 0)) return 0;
      /* environment chain ends */
      o = OP (i)->super; k = 0; while (o && k < NO + 1) { o = o->super; k++; }
      if (o) return 0;
    }
  return 1;
}

#ifdef MODE_DESTRUCT
/* registries other than the inventory forest are contract stubs here (name hash, living names, heart beats, connections) */
static int unhashed[NO], hb_off[NO], pushed;
void remove_object_from_stack (object_t *ob) { (void) ob; }
void close_referencing_sockets (object_t *ob) { (void) ob; }
void remove_object_hash (object_t *ob) { if (idx (ob) >= 0) unhashed[idx (ob)]++; }
void remove_living_name (object_t *ob) { (void) ob; }
void free_sentence (sentence_t *s0) { (void) s0; }
int set_heart_beat (object_t *ob, int to) { (void) to; if (idx (ob) >= 0) hb_off[idx (ob)]++; return 1; }
void remove_interactive (object_t *ob, int d) { (void) ob; (void) d; }
void object_save_ed_buffer (object_t *ob) { (void) ob; }
void push_object (object_t *ob) { (void) ob; pushed++; }
void push_number (int64_t n) { (void) n; pushed++; }
static int on_some_inventory (object_t *x)
{
  int j, k; object_t *o;
  for (j = 0; j < NO; j++) for (o = OP (j)->contains, k = 0; o && k < NO + 1; o = o->next_inv, k++) if (o == x) return 1;
  return 0;
}
#endif
void verif_on_error (void)
{
  errored = 1;
  VERIF_ASSERT ("C08.move.forest_invariant_after_error", forest_inv ());
  VERIF_WITNESS ("move_raised_error");
}
/* init() callback: arbitrary LPC code ran */
svalue_t *apply (const char *fun, object_t *ob, int n, int origin)
{
  int k = callbacks++;
  (void) fun; (void) ob; (void) n; (void) origin;
#ifdef MODE_DESTRUCT
  if (k == 0)      /* (the later callbacks of the destruct cascade are not re-checked: cost) */
#endif
  VERIF_ASSERT ("C08.move.callbacks_see_a_consistent_forest", forest_inv ());
#ifndef NHAVOC
#define NHAVOC 2
#endif
  if (k < NHAVOC)
    {
      int i, p[NO];
      for (i = 0; i < NO; i++) { p[i] = IN.hparent[k * NO + i]; if (IN.hdest[k * NO + i]) OP (i)->flags |= O_DESTRUCTED; }
      __CPROVER_assume (acyclic (p));
      for (i = 0; i < NO; i++) if (OP (i)->flags & O_DESTRUCTED) __CPROVER_assume (p[i] == -1);    /* destructed objects have no environment */
      for (i = 0; i < NO; i++) if (p[i] >= 0) __CPROVER_assume (!(OP (p[i])->flags & O_DESTRUCTED) || 1);
      build_forest (p);
      if (IN.herr[k]) error ("*error in init()");
    }
  return 0;
}
void harness (void)
{
  int i; object_t *dest;
  verif_in_init ();
  __CPROVER_assume (acyclic (IN.parent));
  for (i = 0; i < NO; i++)
    {
      __CPROVER_assume ((IN.flags[i] & ~(O_ENABLE_COMMANDS | O_DESTRUCTED)) == 0);
      OP (i)->flags = IN.flags[i]; OP (i)->name = "o"; OP (i)->ref = 3; OP (i)->sent = 0;
      if (IN.flags[i] & O_DESTRUCTED) __CPROVER_assume (IN.parent[i] == -1);
    }
  __CPROVER_assume (!(IN.flags[0] & O_DESTRUCTED));          /* efun guards refuse a destructed item */
#ifdef NO_COMMANDS
  for (i = 0; i < NO; i++) __CPROVER_assume (!(IN.flags[i] & O_ENABLE_COMMANDS));   /* no living objects: remove_sent is not entered */
#endif
  build_forest (IN.parent);
#ifdef MODE_DESTRUCT
  /* destruct_object(A0): move_or_destruct() of every content is an LPC callback (same havoc as init(): it may move anything,
     A0 included, and destruct things); afterwards A0 is gone from every inventory and the forest is consistent */
  obj_list = &A0; A0.next_all = &A1; A1.next_all = &A2; A2.next_all = 0; obj_list_destruct = 0;
  (void) dest;
  destruct_object (&A0);
  VERIF_ASSERT ("C08.destruct.forest_invariant_after_destruct", forest_inv ());
  if (A0.flags & O_DESTRUCTED)
    {
      VERIF_ASSERT ("C08.destruct.destructed_object_is_in_no_inventory", A0.super == 0 && A0.next_inv == 0 && !on_some_inventory (&A0));
      VERIF_ASSERT ("C08.destruct.destructed_object_holds_nothing", A0.contains == 0 && A1.super != &A0 && A2.super != &A0);
      VERIF_ASSERT ("C08.destruct.not_on_the_list_of_all_objects", obj_list != &A0 && A1.next_all != &A0 && A2.next_all != &A0);
      VERIF_ASSERT ("C08.destruct.name_unhashed_and_heart_beat_off_once", unhashed[0] == 1 && hb_off[0] == 1);
      VERIF_WITNESS ("destructed");
      if (callbacks >= 1) VERIF_WITNESS ("destruct_with_move_or_destruct_callbacks");
    }
  VERIF_WITNESS ("end");
  return;
#endif
  __CPROVER_assume (IN.dest == DEST); dest = OP (DEST);
  move_object (&A0, dest);
  VERIF_ASSERT ("C08.move.forest_invariant_after_move", forest_inv ());
  if (callbacks == 0)
    {
      VERIF_ASSERT ("C08.move.item_is_in_destination", A0.super == dest);
      VERIF_WITNESS ("plain_move");
    }
  else VERIF_WITNESS ("move_with_init_callbacks");
}
