#!/bin/sh
# run_all.sh [quick|thorough] [ids...]: every claimed check in turn, evidence written, summary at the end
T=${1:-quick}; shift
IDS=${*:-C01 C02 C03 C04 C05 C06 C07 C08 C09 C10 C11 C12 C13 C14 C15 C16 C17 C18 C19 C20}
cd /verif
mkdir -p /var/tmp/verif-runall
for p in $IDS; do
  s=$(date +%s)
  ./check $p --tier $T > /var/tmp/verif-runall/$p.$T.log 2>&1; rc=$?
  e=$(date +%s)
  echo "$p $T exit=$rc wall=$((e-s))s $(grep -c '^VIOLATION' /var/tmp/verif-runall/$p.$T.log) violations $(grep -c '^KNOWN-FINDING' /var/tmp/verif-runall/$p.$T.log) known $(grep -c '^INCONCLUSIVE' /var/tmp/verif-runall/$p.$T.log) inconclusive"
done
