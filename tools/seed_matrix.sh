#!/bin/sh
# runs every seeded change against the quick check of the property it breaks (and extra checks named after the seed
# id in tools/seed_extra.txt); results in /var/tmp/seed_matrix.log.  Each seed is applied in a scratch worktree of /repo.
L=/var/tmp/seed_matrix.log
: > $L
for d in /verif/seeded/*/; do
  s=$(basename $d); p=${s%%-*}
  [ -n "$1" ] && case " $* " in *" $s "*) ;; *) continue;; esac
  VERIF_JOBS=${VERIF_JOBS:-10} /verif/tools/try_seed.sh $s $p | head -3 | cut -c1-230 >> $L 2>&1
done
echo DONE >> $L
