#!/bin/sh
# runs every seeded change against the quick check of the property it breaks; results in /tmp/seed_matrix.log
: > /tmp/seed_matrix.log
for d in /verif/seeded/*/; do
  s=$(basename $d); p=${s%%-*}
  VERIF_TIMEOUT=${VERIF_TIMEOUT:-300} VERIF_JOBS=8 /verif/tools/try_seed.sh $s $p | head -3 | cut -c1-230 >> /tmp/seed_matrix.log 2>&1
done
echo DONE >> /tmp/seed_matrix.log
