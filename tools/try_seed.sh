#!/bin/sh
# try_seed.sh SEED PROP [check args]: apply /verif/seeded/SEED/patch.diff to a scratch worktree of /repo (HEAD),
# run the check against it (VERIF_REPO), remove the worktree.  Equivalent to applying in /repo and undoing, but
# does not disturb other runs.
S=$1; P=$2; shift 2
WT=/var/tmp/seedwt.$S.$$
git -C /repo worktree add -q --detach $WT HEAD || exit 9
cd $WT
git apply --3way /verif/seeded/$S/patch.diff >/dev/null 2>&1 || git apply /verif/seeded/$S/patch.diff || { echo "SEED $S: patch does not apply"; cd /; git -C /repo worktree remove --force $WT; exit 9; }
cd /verif
VERIF_REPO=$WT ./check $P --no-evidence "$@" > /tmp/try_$S.log 2>&1; rc=$?
git -C /repo worktree remove --force $WT
echo "SEED $S on $P: exit=$rc  $(grep -c '^VIOLATION' /tmp/try_$S.log) violation line(s)"
grep -E "^VIOLATION|^   |^INCONCLUSIVE" /tmp/try_$S.log | cut -c1-200 | head -5
