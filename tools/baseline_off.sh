#!/bin/sh
# Build /repo WITHOUT -DTAEDLAR_NEOLITH_VERIF in a scratch dir and run the repository's test suite
# (same command as /root/.vp/BASELINE.json: ctest -j8 --timeout 900). Scratch dir is removed.
set -e
B=/var/tmp/neolith-baseline.$$
trap 'rm -rf "$B"' EXIT
cmake -G Ninja -S /repo -B "$B" -DCMAKE_BUILD_TYPE=RelWithDebInfo -DCMAKE_C_FLAGS=-Wno-error -DCMAKE_CXX_FLAGS=-Wno-error >/dev/null
cmake --build "$B" >/dev/null
ctest --test-dir "$B" -j8 --timeout 900 --output-junit "$B/junit.xml"
