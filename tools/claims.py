# claims table: executed by mkmanifest.py
claim('C15', 'CBMC bounded symbolic execution of legal_path/check_valid_path and file-efun call sites',
      'Solver-decided (SAT, all inputs within bounds): the real path filter accepts no absolute path and no path with a ".." component for every string up to the stated length; counterexamples are replayed natively.',
      'Bounds: path length <= 6 (quick) / 9 (thorough). Stubs: logging off, strstr reference model. Host FS semantics and symlinks outside the claim.',
      'DESIGN.md 5/C15')
claim('C13', 'CBMC inductive step of the real telnet decoder copy_chars (1 byte from any state; 2-3 byte split equivalence in the thorough tier), telnet_neg line editing, get_user_data read budget',
      'Solver-decided over all decoder states and input bytes: memory safety, state invariant, <=3 output bytes per input byte, no negotiation byte in command text; split invariance of the decoder for 2 and 3 bytes (thorough tier only: > 10 min); line editing of every line of <= 4 (6) bytes against a reference; the reader never asks for more bytes than fit behind text_end. Inductive, so byte streams of any length are covered for the decoder.',
      'Output path and LPC applies are counting stubs; reader (get_user_data) segmentation and line editing are covered only as far as the listed harnesses go. unions compiled as structs in the CBMC encoding (DESIGN Corrections 1).',
      'DESIGN.md 5/C13')
claim('C10', 'CBMC lemmas over a ghost due-time on the real timing wheel (insert, sweep, re-entrant sweep, query/cancel)',
      'Solver-decided single operations from arbitrary wheel states: new_call_out places the entry exactly at current_time+max(delay,1) for all delays in [-2,97]; call_out() fires exactly the due entries once, in order, dropping destructed owners, with error branches; re-entrant insert/remove/find from inside a callback; remove/find report due-now. Induction over operations gives histories of any length within the state bounds.',
      'States: <=3 entries in the swept slot + 1 elsewhere, deltas <= 3 (6), two concrete slot pairs (4 in thorough), string-named call_outs without arguments; free-list refill cut.',
      'DESIGN.md 5/C10')
claim('C16', 'CBMC on real save_svalue/svalue_save_size/parse_numeric/restore_string/restore_svalue: windows of int64, all short strings, arbitrary damaged text for the string / number / other first-byte classes',
      'Solver-decided: sizing vs bytes written and exact round trip for every integer with abs(n) < 10^7, for 2*10^6 integers around every power of ten, +-2^31, +-2^32 and both ends of int64 (thorough: also the whole 8-, 9-, 10-digit classes) and for every string up to 3 (5) bytes; restore of 4 (6) arbitrary bytes after a string, minus, digit or other first byte is memory safe, returns success or a ROB error, leaves the parser state idle and the next restore unaffected.',
      'Integers are covered in windows (stated in evidence), not the full 2^64 range in one query (no verdict in 900 s); libc decimal formatting is modelled (guess-and-check and division models cross-checked); damaged text that starts a container ({ [ /) is NOT decided (symex of restore_internal_size does not finish, DESIGN corrections 17); floats, mappings and atomic-save crash points are not covered.',
      'DESIGN.md 5/C16')
claim('C19', 'CBMC on real async_runtime_epoll.c with kernel-semantics models of eventfd and O_NONBLOCK pipe; real async_queue.c one-operation contract with ghost lock (sequentialisation)',
      'Solver-decided: any <=2 (3) posts before a sequence of waits of 1..4 events each vs the delivered events (each completion once with its key and data, nothing invented, nothing lost when posts exceed one wait); queue operations from an arbitrary valid ring for each overflow policy incl. consumer activity while a writer is blocked; lock discipline.',
      'timer.cpp / sync.cpp (C++) and the pthread worker are not encoded; mutual exclusion of the mutex is trusted; no weak-memory reasoning.',
      'DESIGN.md 5/C19')
claim('C07', 'CBMC on real apply_low/find_function with names at fixed addresses: 2-call histories vs a reference resolver and visibility table',
      'Solver-decided for all flag combinations and caller kinds: the second call outcome (runs / refused, program, index, offsets, object) equals the reference for (program, name, caller kind) alone, for every earlier call incl. refused ones; flat and one-level inherited programs.',
      'Function tables are assumed to satisfy the documented invariants (compiler side outside); frames/bytecode execution are recording stubs; cache starts empty.',
      'DESIGN.md 5/C07')
claim('C14', 'CBMC inductive step of the real add_message / flush_message on an arbitrary valid output ring with a nondeterministic socket',
      'Solver-decided: chunks handed to send are the oldest unsent bytes in order and never cross the wrap; indices advance by exactly what the socket accepted; LF->CRLF; appended after old data; unsent data never overwritten; only the tail of the message dropped and only when full or dead; NET_DEAD only on fatal errno. Inductive over operations.',
      'quick tier keeps ring indices symbolic inside the wrap windows (thorough: whole 4096 ring); <=3 send calls per operation; message <=2 (3) bytes; snoop and console path cut.',
      'DESIGN.md 5/C14')
claim('C12', 'CBMC step contract of one real get_user_command() call on an arbitrary 3-slot connection table (hook positions the cursor)',
      'Solver-decided for every combination of holes, flags and queued bytes: nobody eligible => nothing returned and no turn consumed; otherwise the first eligible user in cursor order is served with its oldest command, exactly its turn is consumed, CMD_IN_BUF is kept iff another complete command remains, other users are untouched. With the induction of DESIGN 5/C12 this gives one command per user per cycle and no starvation.',
      'Uses the guarded add-only hook verif_cmd_cursor; the grant loop in backend() and command() are argued, not encoded; <=4 queued bytes per user.',
      'DESIGN.md 5/C12')
claim('C11', 'CBMC on the real call_heart_beat/set_heart_beat with one scripted real re-entrant action per round, case-split per (first caller, action, target)',
      'Solver-decided against a lock-step reference scheduler: at most one call per tick, no call after disable/destruct, exactly-once when due in completed ticks, countdown/interval bookkeeping, table invariant, error switches off only the failing object, flag stops the round.',
      'quick: 2 objects; thorough: 3 objects. One acting callback per round (incl. enable-then-disable); table growth path cut; reset/call_out part of the tick cut.',
      'DESIGN.md 5/C11')
claim('C05', 'CBMC on the real save_context / restore_context / pop_context with real frame and stack operations from symbolic register values and value kinds',
      'Solver-decided: after any evolution of 0..3 frames of any kind, 0..3 pushed values (numbers, strings, arrays, error handlers), a nested context and a changed command giver, the landing-site code restores every VM register, the value and call stacks, the command giver and the handler chain, releases every pushed value once and runs error handlers once.',
      'longjmp is modelled by running the landing-site code; stack depths are concrete per run (case split); a catch point on an empty control stack is outside (pointer before object); error_handler guard resets and the other setjmp users are not yet covered.',
      'DESIGN.md 5/C05')
claim('C18', 'CBMC round trip of the real line-run encoder (switch_to_line) through the real decoder (find_line) for every pc; real translate_absolute_line vs the generator record',
      'Solver-decided: for <=3 statements with code sizes 0..600 at arbitrary lines, every pc inside the code maps to the line of the covering statement; for any file table of <=4 segments every absolute line maps to the right (file, line), and lines beyond the table are errors.',
      'Which line the generator attributes to a node, include handling in the lexer, and the trace walk (dump_trace) are outside.',
      'DESIGN.md 5/C18')
claim('C20', 'CBMC on the real f_seteuid / f_export_uid with a nondeterministic master, and on the real clone_object / load_object up to the first object-creating call',
      'Solver-decided from any uid/euid assignment of 3 objects: euid changes only when the master approves (or to 0), uid only by export from a non-zero euid onto a zero-euid object, nothing else changes; with euid 0 (not the master) clone_object and load_object reach no blueprint lookup, file access or allocation.',
      'give_uid_to_object (creator_file policy) is not yet covered; code after the gate is stubbed.',
      'DESIGN.md 5/C20')
claim('C01', 'CBMC one-step symbolic execution of the real eval_instruction (VM step engine) per opcode and operand-kind case; real error() with an arbitrary vsnprintf result',
      'Solver-decided per (opcode, operand kinds): from any VM state of the engine shape the step performs no out-of-bounds/null/freed access, no division trap, keeps sp and pc in range, leaves valid tags and the stack unwinds cleanly, or raises an LPC error. Indices of strings/buffers/lvalues and all numeric operands range over all int64; array rvalue indexing uses typed array blocks with every in-range position and concrete boundary / 32-bit-truncation probes (symbolic out-of-range classes in thorough and in C03); implode on 3-element arrays of every string/non-string pattern; incl. 32-bit truncation values.',
      'Covered opcodes: index/rindex (rvalue and lvalue), ranges on strings and buffers, arithmetic/comparison/bit/unary operators; efuns, calls, control flow, mappings, multi-step interactions and values longer than 3 are not yet covered. unions compiled as structs (hooks keep punned members in sync).',
      'DESIGN.md 5/C01')
claim('C04', 'CBMC: VM step engine with symbolic size limits (LIMIT oracle), real do_catch with both setjmp branches, real function-entry stack check on a case grid',
      'Solver-decided: string/buffer/array results of + and += never exceed symbolic configured limits (else an error); a limit error (stack full / eval cost) raised inside catch is re-raised and never swallowed, contexts popped once; every dispatch of the engine ends in the uncatchable eval-cost error after the configured number of steps; function entry either raises the stack-overflow error or the frame fits.',
      'rc.cpp (how limits are read) is C++ and not encoded; efuns that build values, mappings, and eval_cost <= 0 at start are outside; frame set-up uses an enumerated case grid (stack pointers must stay concrete).',
      'DESIGN.md 5/C04')
claim('C06', 'CBMC: REF oracle on the VM step engine, real shared-string counter step from any 16-bit value, real call_out sweep with argument arrays',
      'Solver-decided: after a step and stack unwinding every buffer/array operand is back at the count of its other holders and single-holder values are freed exactly once (double free / use after free are CBMC failures); ref_string/free_string from any counter value incl. saturation free a string iff the last holder released it; pending call_outs release their argument array exactly once when fired or dropped and keep it while pending.',
      'Whole-run leak freedom, statistics counters, mappings/classes/function pointers and programs are outside; operand arrays are typed static objects with a second holder.',
      'DESIGN.md 5/C06')
claim('C03', 'CBMC differential harnesses on the real code: code generator literal encoder -> interpreter, index opcodes vs a mathematical reference',
      'Solver-decided for all int64 values: the literal the real write_long_number encodes is the value the real interpreter pushes; x[i] and x[<i] on strings, buffers and arrays return the referenced element for in-range indices and raise an error for every out-of-range int64 index (arrays: typed blocks, index classes that cover all of int64). switch on an integer selects exactly the case whose label equals the value, else default, for every table of 1..7 (9) strictly ascending int64 labels laid out as the code generator writes them (real f_switch binary search incl. the non-2^k-1 fix-up).',
      'Only the literal, index and integer-switch parts of C03 are covered: op= vs op, loops, string and range switches, folding, mappings and the compiler choice of opcodes are not; buffer element values are compared at index 0 only (CBMC struct-hack limitation).',
      'DESIGN.md 5/C03')
claim('C02', 'CBMC on the real compiler locals bookkeeping (init_locals, add_local_name, reallocate_locals, de/reactivate, pop_n_locals) with the function-literal grammar actions replayed',
      'Solver-decided memory safety of every table write against the blocks really allocated, cursors back at base and no stale local binding after unwinding, limit on the total number of local slots across sibling blocks; per-level counts are concrete per run, everything else is executed symbolically.',
      'Only the locals kernel of C02 is covered: lexer, preprocessor, mem_block growth, scratchpad, identifier table and termination of yyparse are not; the bison actions are replayed, not called.',
      'DESIGN.md 5/C02')
claim('C09', 'CBMC on the real process_io event dispatch (NULL / sparse connection table), the real call_out sweep with errors injected into any firings, the real call_heart_beat round with the other periodic tasks enabled',
      'Solver-decided: a timer wake-up or a console completion arriving on a driver with no connection at all (table NULL), with an empty console slot or with a populated table is dispatched without memory errors, whatever the event bits and the outcome of the console reconnect; an error in any subset of call_out firings leaves every other due entry firing exactly once; while call_outs and reset/clean_up run no heart beat is marked in progress, so an error there cannot switch off an innocent heart beat.',
      'Only this slice of C09 is covered: user socket events, the backend loop and its error recovery site, process_user_command callbacks and remove_interactive are not encoded (the heart-beat error clause itself is decided under C11).',
      'DESIGN.md 5/C09')
claim('C17', 'CBMC on the real load_binary staleness gate with a stub file system (symbolic mtimes, ids, names)',
      'Solver-decided: the loader starts reading the program image only if the source and every listed include are not newer than the binary, the magic / driver id / configuration id match and the stored name matches; otherwise it returns out-of-date; for a program with one inherit the inherited program is only resolved when its source and its own saved binary (SaveBinaryDir with a leading slash) are not newer than this binary.',
      'Only the gate of C17 is covered: relocation and table re-sorting (locate_in, patch_in, sort_function_table) and equality with a fresh compile are not.',
      'DESIGN.md 5/C17')
claim('C08', 'CBMC inductive step of the real move_object from an arbitrary forest over 3 objects with havoc-to-invariant callbacks; real f_move_object with a havoc destination lookup',
      'Solver-decided: from any acyclic environment/inventory forest and any flags, move_object keeps the forest invariant (each object on exactly the inventory list of its environment, no cycles) after the move, at every init() callback and on the error path, with each callback replacing the graph by another arbitrary forest; a plain move puts the item into its destination; the move_object efun never moves an object that create() of the destination destructed.',
      'destruct_object is NOT decided (a destruct mode of the forest harness exists but its recursive cascade does not finish in 1500 s); name table (otable), load/clone name bookkeeping and the other efun guards are not covered; callbacks are havoc (not real nested calls); 3 objects.',
      'DESIGN.md 5/C08')
