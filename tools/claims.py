# claims table: executed by mkmanifest.py
claim('C15', 'CBMC bounded symbolic execution of legal_path/check_valid_path and file-efun call sites',
      'Solver-decided (SAT, all inputs within bounds): the real path filter accepts no absolute path and no path with a ".." component for every string up to the stated length; counterexamples are replayed natively.',
      'Bounds: path length <= 6 (quick) / 9 (thorough). Stubs: logging off, strstr reference model. Host FS semantics and symlinks outside the claim.',
      'DESIGN.md 5/C15')
