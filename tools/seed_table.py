#!/usr/bin/env python3
"""seed_table.py: markdown table of the seeded changes and what the checks said (from /var/tmp/seed_matrix.log and
extra trial logs given as 'SEED <id> on <Cxx>: exit=..' lines on stdin)."""
import json, os, re, sys, glob
V = os.path.dirname(os.path.dirname(os.path.abspath(__file__)))
res = {}
def eat(lines):
    cur = None
    for ln in lines:
        m = re.match(r'SEED (\S+) on (\S+): exit=(\d+)\s+(\d+) violation', ln)
        if m:
            cur = (m.group(1), m.group(2)); res.setdefault(cur[0], {})[cur[1]] = {'exit': int(m.group(3)), 'viol': int(m.group(4)), 'first': ''}
            continue
        m = re.match(r'\s+(\S+): (.*?) \[(.*?)\]', ln)
        if m and cur and not res[cur[0]][cur[1]]['first']:
            res[cur[0]][cur[1]]['first'] = '%s [%s]' % (m.group(1), m.group(3))
for f in sys.argv[1:]:
    eat(open(f).read().splitlines())
print('| seed | change (one line) | check run | result | first reporting harness [oracle] |')
print('|---|---|---|---|---|')
for d in sorted(glob.glob(os.path.join(V, 'seeded', 'C*'))):
    s = os.path.basename(d)
    m = json.load(open(os.path.join(d, 'meta.json')))
    summ = m['summary'].split('. ')[0][:150].replace('|', '/')
    rs = res.get(s, {})
    if not rs:
        print('| %s | %s | - | not run | |' % (s, summ)); continue
    for p, r in sorted(rs.items()):
        verdict = 'DETECTED' if r['exit'] == 1 and r['viol'] else ('inconclusive' if r['exit'] == 2 else ('missed' if r['exit'] == 0 else 'error %d' % r['exit']))
        print('| %s | %s | %s quick | %s | %s |' % (s, summ, p, verdict, r['first'].replace('|', '/')))
