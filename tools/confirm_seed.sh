#!/bin/sh
# confirm_seed.sh ID k : re-verify a sub-agent's seeded change in its scratch worktree and store it under /verif/seeded/
ID=$1; k=$2
WT=/tmp/seed/wt_$ID; OUT=/tmp/seed/out_$ID/m$k; DST=/verif/seeded/$ID-m$k
LOG=/tmp/seed/confirm_$ID-m$k.log
exec >$LOG 2>&1
set -x
git -C $WT checkout -- . || exit 9
git -C $WT apply $OUT/patch.diff || { echo "CONFIRM: patch does not apply"; exit 9; }
cmake -G Ninja -S $WT -B $WT/_build -DCMAKE_BUILD_TYPE=RelWithDebInfo -DCMAKE_C_FLAGS=-Wno-error -DCMAKE_CXX_FLAGS=-Wno-error >/dev/null && cmake --build $WT/_build >/dev/null || { echo "CONFIRM: build failed"; exit 9; }
ctest --test-dir $WT/_build -j8 --timeout 900 > $LOG.ctest 2>&1; CT=$?
tail -3 $LOG.ctest
bash $OUT/demo.sh > $LOG.with 2>&1; W=$?
git -C $WT checkout -- .
cmake --build $WT/_build >/dev/null 2>&1
bash $OUT/demo.sh > $LOG.without 2>&1; WO=$?
set +x
echo "CONFIRM $ID-m$k: ctest_rc=$CT demo_with_change_rc=$W demo_without_rc=$WO"
if [ $CT = 0 ] && [ $W != 0 ] && [ $WO = 0 ]; then
  mkdir -p $DST; cp -r $OUT/* $DST/; rm -f $DST/*.o; find $DST -type f -size +2000k -delete
  find $DST -type f -perm -u+x ! -name '*.sh' -exec sh -c 'file "$1" | grep -q ELF && rm -f "$1"' _ {} \;
  python3 - $DST $ID $CT $W $WO <<'PY'
import json,sys
d,ID,ct,w,wo=sys.argv[1:6]
try: m=json.load(open(d+'/meta.json'))
except Exception as e: m={'note':'agent meta unreadable'}
m['breaks_property']=ID
m['confirmed_by_me']={'ctest_with_change_rc':int(ct),'demo_with_change_rc':int(w),'demo_without_change_rc':int(wo),
  'how':'tools/confirm_seed.sh: applied patch.diff in a scratch worktree of /repo, rebuilt, ran full ctest (all pass), ran demo.sh (fails), reverted, ran demo.sh (passes)'}
json.dump(m,open(d+'/meta.json','w'),indent=1)
PY
  echo "CONFIRM-OK $ID-m$k"
else
  echo "CONFIRM-REJECT $ID-m$k"
fi
