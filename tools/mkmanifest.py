#!/usr/bin/env python3
"""Regenerates /verif/MANIFEST.json from the table below (single source of truth)."""
import json, os, subprocess
V = os.path.dirname(os.path.dirname(os.path.abspath(__file__)))

# property -> (technique, level text, level note, design ref)
CLAIMED = {}
NA = {}

def claim(pid, technique, text, note, ref):
    CLAIMED[pid] = (technique, text, note, ref)

exec(open(os.path.join(V, 'tools', 'claims.py')).read())

props = [json.loads(l)['id'] for l in open(os.path.join(V, 'properties.jsonl'))]
hooks_commits = []
hf = os.path.join(V, 'tools', 'hook_commits.txt')
if os.path.exists(hf):
    hooks_commits = [l.strip() for l in open(hf) if l.strip()]
checks = []
for pid in props:
    if pid in CLAIMED and os.path.exists(os.path.join(V, 'harness', pid, 'spec.py')):
        tech, text, note, ref = CLAIMED[pid]
        checks.append({
            'property_id': pid,
            'quick_cmd': './check %s --tier quick' % pid,
            'thorough_cmd': './check %s --tier thorough' % pid,
            'evidence_file': '/verif/evidence/%s.json' % pid,
            'replay_cmd_template': './check %s --tier thorough --replay {path}' % pid,
            'engine': 'cbmc-real-code',
            'level_claimed': {'category': 'model_checking', 'text': text, 'design_ref': ref},
            'level_note': note,
            'technique': tech,
        })
na = []
for pid in props:
    if not any(c['property_id'] == pid for c in checks):
        na.append({'property_id': pid, 'reason': NA.get(pid, 'no check built yet in this tree (see DESIGN.md section 5 for the planned harness)')})
m = {
    'version': 1,
    'setup_cmd': 'true',
    'hooks': {
        'guard': 'TAEDLAR_NEOLITH_VERIF',
        'enable': 'checks compile the real translation units with goto-cc -DTAEDLAR_NEOLITH_VERIF (no cmake option needed); generated headers come from a scratch cmake configure of /repo',
        'baseline_off_cmd': '/verif/tools/baseline_off.sh',
        'source_commits': hooks_commits,
        'add_only': True,
    },
    'engines': [{'name': 'cbmc-real-code', 'path': '/verif/check', 'serves_properties': [c['property_id'] for c in checks],
                 'kind_free_text': 'bounded symbolic execution (CBMC 6.11, SAT back end cadical) of neolith\'s own C translation units compiled with goto-cc from /repo\'s working tree on every run; counterexamples replayed on a native gcc+ASan/UBSan build of the same harness'}],
    'checks': checks,
    'not_applicable': na,
    'notes': 'See DESIGN.md. exit 2 from a check means inconclusive (time-out, harness error, unreached witness), never a pass.',
}
json.dump(m, open(os.path.join(V, 'MANIFEST.json'), 'w'), indent=1)
print('claimed:', [c['property_id'] for c in checks], 'n/a:', [x['property_id'] for x in na])
