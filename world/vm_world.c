/* vm_world.c -- VM registers and stacks for harnesses that do not link interpret.c / simulate.c / backend.c / rc.cpp.
 * Value stack: VM_STACK_SLOTS usable slots inside a larger static array (start_of_stack - 1 is a valid pointer);
 * control stack: VM_FRAMES frames (control_stack - 1 valid).  Select what to define with VMW_* macros. */
#include "all_types.h"
#include "std.h"
#include "rc.h"
#include "lpc/types.h"
#include "lpc/object.h"
#include "lpc/program.h"
#include "interpret.h"
#include "verif.h"
#ifndef VM_STACK_SLOTS
#define VM_STACK_SLOTS 24
#endif
#ifndef VM_FRAMES
#define VM_FRAMES 6
#endif
int config_int[NUM_CONFIG_INTS];
char *config_str[NUM_CONFIG_STRS];
#ifndef VMW_HAVE_INTERPRET
int caller_type; program_t *current_prog; const char *pc; int function_index_offset, variable_index_offset;
#endif
#ifndef VMW_HAVE_SIMULATE
object_t *current_object, *previous_ob, *command_giver, *current_interactive;
#endif
#ifndef VMW_HAVE_BACKEND
int64_t eval_cost; object_t *current_heart_beat; time_t current_time; int heart_beat_flag;
#endif
#ifndef VMW_HAVE_APPLY
svalue_t apply_ret_value;
#endif
extern svalue_t *start_of_stack, *end_of_stack, *sp, *fp;
extern control_stack_t *control_stack, *csp;
extern svalue_t const0, const1, const0u;
/* Typed static stacks (a calloc'd stack is a byte array for CBMC: every tag read back from it is a byte-extract and
 * the interpreter's switches fork on it).  Same layout as reset_interpreter(): the last 5 slots are the driver's slack. */
static svalue_t VSTACK[VM_STACK_SLOTS + 8];
static control_stack_t CSTACK[VM_FRAMES + 2];
void vm_world_init (void)
{
  CONFIG_INT (__MAX_CALL_DEPTH__) = VM_FRAMES;
  CONFIG_INT (__EVALUATOR_STACK_SIZE__) = VM_STACK_SLOTS;
  apply_ret_value.type = T_NUMBER;
  const0.type = T_NUMBER; const0.subtype = 0; const0.u.number = 0;
  const1.type = T_NUMBER; const1.subtype = 0; const1.u.number = 1;
  const0u.type = T_NUMBER; const0u.subtype = T_UNDEFINED; const0u.u.number = 0;
  start_of_stack = VSTACK + 4;
  end_of_stack = start_of_stack + VM_STACK_SLOTS - 5;
  sp = start_of_stack - 1;
  fp = start_of_stack;
  control_stack = CSTACK + 1;
  csp = control_stack - 1;
}
