/* vm_world.c -- VM registers and stacks for harnesses that do not link interpret.c / simulate.c / backend.c / rc.cpp.
 * Value stack: VM_STACK_SLOTS usable slots inside a larger static array (start_of_stack - 1 is a valid pointer);
 * control stack: VM_FRAMES frames (control_stack - 1 valid).  Select what to define with VMW_* macros. */
#include "all_types.h"
#include "std.h"
#include "rc.h"
#include "lpc/types.h"
#include "lpc/object.h"
#include "lpc/program.h"
#include "interpret.h"
#include "verif.h"
#ifndef VM_STACK_SLOTS
#define VM_STACK_SLOTS 24
#endif
#ifndef VM_FRAMES
#define VM_FRAMES 6
#endif
int config_int[NUM_CONFIG_INTS];
char *config_str[NUM_CONFIG_STRS];
#ifndef VMW_HAVE_INTERPRET
int caller_type; program_t *current_prog; const char *pc; int function_index_offset, variable_index_offset;
#endif
#ifndef VMW_HAVE_SIMULATE
object_t *current_object, *previous_ob, *command_giver, *current_interactive;
#endif
#ifndef VMW_HAVE_BACKEND
int64_t eval_cost; object_t *current_heart_beat; time_t current_time; int heart_beat_flag;
#endif
#ifndef VMW_HAVE_APPLY
svalue_t apply_ret_value;
#endif
extern svalue_t *start_of_stack, *end_of_stack, *sp, *fp;
extern control_stack_t *control_stack, *csp;
void reset_interpreter (void);
/* The stacks are created by the real reset_interpreter() (src/stack.c) with small configured sizes:
 * value stack VM_STACK_SLOTS slots (the last 5 are the driver's slack), control stack VM_FRAMES frames. */
void vm_world_init (void)
{
  CONFIG_INT (__MAX_CALL_DEPTH__) = VM_FRAMES;
  CONFIG_INT (__EVALUATOR_STACK_SIZE__) = VM_STACK_SLOTS;
  apply_ret_value.type = T_NUMBER;
  reset_interpreter ();
  __CPROVER_assume (start_of_stack != 0 && control_stack != 0);
  fp = start_of_stack;
}
