/* world_err.c -- LPC error raising (DESIGN 3.3): error(), bad_arg(), bad_argument() and fatal() are NO_RETURN and longjmp in the
 * driver.  Model: record the error, run the harness' error epilogue, end the path.  "Raises an LPC error"
 * is therefore an allowed outcome and everything up to the raise is checked.  fatal() = driver terminates. */
#include "all_types.h"
#include "std.h"
#include "lpc/types.h"
#include "verif.h"
int verif_lpc_error;
extern void verif_on_error (void);
void error (const char *fmt, ...) { (void) fmt; verif_lpc_error = 1; verif_on_error (); VERIF_END_PATH (); for (;;) ; }
void bad_arg (int arg, int instr) { (void) arg; (void) instr; verif_lpc_error = 1; verif_on_error (); VERIF_END_PATH (); for (;;) ; }
void bad_argument (svalue_t *val, int type, int arg, int instr) { (void) val; (void) type; (void) arg; (void) instr; verif_lpc_error = 1; verif_on_error (); VERIF_END_PATH (); for (;;) ; }
void fatal (char *fmt, ...) { (void) fmt; __CPROVER_assert (0, "ORACLE driver-terminates: fatal() reached"); VERIF_END_PATH (); for (;;) ; }
