/* all_types.h -- every world/stub TU includes the same set of LPC type headers so that struct types are
 * complete and identical in all translation units (CBMC's linker otherwise inserts casts between
 * "different" struct types, which crashes its simplifier when unions are compiled as structs). */
#ifndef VERIF_ALL_TYPES_H
#define VERIF_ALL_TYPES_H
#include <config.h>
#include "std.h"
#include "rc.h"
#include "lpc/types.h"
#include "lpc/object.h"
#include "lpc/program.h"
#include "lpc/array.h"
#include "lpc/mapping.h"
#include "lpc/buffer.h"
#include "lpc/class.h"
#include "lpc/functional.h"
#include "lpc/svalue.h"
#include "interpret.h"
#include "apply.h"
#include "error_context.h"
#include "simulate.h"
#include "backend.h"
#include "stralloc.h"
#include "comm.h"
#endif
