/* world_base.c -- part of every claim (DESIGN 3.3)
 *  - logging/tracing: empty bodies; debug_level = 0, trace_flags = 0 (logging is never the subject)
 *  - allocation: xalloc = malloc, never NULL
 */
#include <config.h>
#include "std.h"
#include "src/main.h"
#include "verif.h"

static main_options_t verif_main_options;
main_options_t *g_main_options = &verif_main_options;
FILE *current_log_file;

int log_message (const char *file, const char *fmt, ...) { (void)file; (void)fmt; return 0; }
int debug_message (const char *fmt, ...) { (void)fmt; return 0; }
int debug_message_with_src (const char *t, const char *func, const char *src, int line, const char *fmt, ...)
{ (void)t; (void)func; (void)src; (void)line; (void)fmt; return 0; }
int debug_perror_with_src (const char *func, const char *src, int line, const char *what, const char *file)
{ (void)func; (void)src; (void)line; (void)what; (void)file; return 0; }

#ifndef VERIF_NO_XALLOC
char *xalloc (size_t n)
{
#ifndef VERIF_XALLOC_PLAIN
  /* CBMC 6.11 types an allocation whose size constant comes from `sizeof (T[1]) * n` (neolith's CALLOCATE macro) as an array of
     T[1] and then loses writes through a T* under a symbolic index (DESIGN corrections 19); two xors build a fresh constant
     without the sizeof annotation, so the block is a plain byte array */
  char *p = malloc ((n ^ 5) ^ 5);
#else
  char *p = malloc (n);
#endif
  __CPROVER_assume (p != 0);
  return p;
}
#endif
