/* libc_models.c -- reference models for libc functions CBMC 6.11 has no body for.
 * Only compiled into the CBMC build; the native replay uses glibc. */
#ifdef VERIF_CBMC
#include <stddef.h>
char *strstr (const char *h, const char *n)
{
  size_t i, j;
  if (!n[0]) return (char *) h;
  for (i = 0; h[i]; i++)
    {
      for (j = 0; n[j] && h[i + j] == n[j]; j++) ;
      if (!n[j]) return (char *) h + i;
      if (!h[i + j]) return 0;
    }
  return 0;
}
char *strpbrk (const char *s, const char *a)
{
  size_t i, j;
  for (i = 0; s[i]; i++)
    for (j = 0; a[j]; j++)
      if (s[i] == a[j]) return (char *) s + i;
  return 0;
}
/* C-locale character classes as functions (the encoding is compiled with -D__NO_CTYPE, so glibc's table macros are off) */
int isdigit (int c) { return c >= '0' && c <= '9'; }
int isupper (int c) { return c >= 'A' && c <= 'Z'; }
int islower (int c) { return c >= 'a' && c <= 'z'; }
int isalpha (int c) { return (c >= 'A' && c <= 'Z') || (c >= 'a' && c <= 'z'); }
int isalnum (int c) { return (c >= 'A' && c <= 'Z') || (c >= 'a' && c <= 'z') || (c >= '0' && c <= '9'); }
int isxdigit (int c) { return (c >= '0' && c <= '9') || (c >= 'a' && c <= 'f') || (c >= 'A' && c <= 'F'); }
int isspace (int c) { return c == ' ' || (c >= 9 && c <= 13); }
int isblank (int c) { return c == ' ' || c == 9; }
int isprint (int c) { return c >= 32 && c < 127; }
int isgraph (int c) { return c > 32 && c < 127; }
int iscntrl (int c) { return (c >= 0 && c < 32) || c == 127; }
int ispunct (int c) { return c > 32 && c < 127 && !((c >= 'A' && c <= 'Z') || (c >= 'a' && c <= 'z') || (c >= '0' && c <= '9')); }
int tolower (int c) { return (c >= 'A' && c <= 'Z') ? c + 32 : c; }
int toupper (int c) { return (c >= 'a' && c <= 'z') ? c - 32 : c; }
/* C-locale ctype table, for code that still reaches the glibc table entry points */
static unsigned short verif_ctype_tab[384];
static const unsigned short *verif_ctype_ptr;
const unsigned short **__ctype_b_loc (void)
{
  int c;
  if (!verif_ctype_ptr)
    {
      for (c = 0; c < 256; c++)
        {
          unsigned short m = 0;
          /* bit layout of glibc on little endian: _ISbit(n) = n<8 ? (1<<n)<<8 : (1<<n)>>8 */
          int up = c >= 'A' && c <= 'Z', lo = c >= 'a' && c <= 'z', di = c >= '0' && c <= '9';
          int sp = c == ' ' || (c >= 9 && c <= 13), pr = c >= 32 && c < 127, gr = c > 32 && c < 127;
          int xd = di || (c >= 'a' && c <= 'f') || (c >= 'A' && c <= 'F');
          int cn = c < 32 || c == 127, pu = gr && !(up || lo || di), bl = c == ' ' || c == 9;
          if (up) m |= (1 << 0) << 8;
          if (lo) m |= (1 << 1) << 8;
          if (up || lo) m |= (1 << 2) << 8;
          if (di) m |= (1 << 3) << 8;
          if (xd) m |= (1 << 4) << 8;
          if (sp) m |= (1 << 5) << 8;
          if (pr) m |= (1 << 6) << 8;
          if (gr) m |= (1 << 7) << 8;
          if (bl) m |= (1 << 8) >> 8;
          if (cn) m |= (1 << 9) >> 8;
          if (pu) m |= (1 << 10) >> 8;
          if (up || lo || di) m |= (1 << 11) >> 8;
          verif_ctype_tab[128 + c] = m;
        }
      verif_ctype_ptr = verif_ctype_tab + 128;
    }
  return &verif_ctype_ptr;
}
static int verif_lower_tab[384], verif_upper_tab[384];
static const int *verif_lower_ptr, *verif_upper_ptr;
const int **__ctype_tolower_loc (void)
{
  int c;
  if (!verif_lower_ptr)
    {
      for (c = -128; c < 256; c++) verif_lower_tab[128 + c] = (c >= 'A' && c <= 'Z') ? c + 32 : c;
      verif_lower_ptr = verif_lower_tab + 128;
    }
  return &verif_lower_ptr;
}
const int **__ctype_toupper_loc (void)
{
  int c;
  if (!verif_upper_ptr)
    {
      for (c = -128; c < 256; c++) verif_upper_tab[128 + c] = (c >= 'a' && c <= 'z') ? c - 32 : c;
      verif_upper_ptr = verif_upper_tab + 128;
    }
  return &verif_upper_ptr;
}
#endif
#ifdef VERIF_CBMC
/* UTF-8 model of mblen (the driver runs under C.UTF-8) */
#include <stdlib.h>
size_t __ctype_get_mb_cur_max (void) { return 4; }
int mblen (const char *s, size_t n)
{
  unsigned char c;
  int k, i;
  if (!s) return 0;
  if (n == 0) return -1;
  c = (unsigned char) s[0];
  if (c == 0) return 0;
  if (c < 0x80) return 1;
  if (c >= 0xc2 && c <= 0xdf) k = 2;
  else if (c >= 0xe0 && c <= 0xef) k = 3;
  else if (c >= 0xf0 && c <= 0xf4) k = 4;
  else return -1;
  if ((size_t) k > n) return -1;
  for (i = 1; i < k; i++)
    if (((unsigned char) s[i] & 0xc0) != 0x80) return -1;
  return k;
}
#endif
#ifdef VERIF_CBMC
/* faithful mini-printf (CBMC's own sprintf model writes arbitrary content): %s %d %i %u %ld %lld %lu %c %% and literals */
#include <stdarg.h>
#ifdef VERIF_FMT_GUESS
int nondet_int (void); unsigned char nondet_uchar (void);
#endif
static int verif_fmt (char *out, size_t cap, int bounded, const char *fmt, va_list ap)
{
  size_t n = 0; int i;
#define VPUT(c) do { if (!bounded || n + 1 < cap) out[n] = (c); n++; } while (0)
  for (i = 0; fmt[i]; i++)
    {
      if (fmt[i] != '%') { VPUT (fmt[i]); continue; }
      i++;
      {
        int prec = -1;
        if (fmt[i] == '.') { prec = 0; i++; while (fmt[i] >= '0' && fmt[i] <= '9') { prec = prec * 10 + (fmt[i] - '0'); i++; } }   /* %.250s */
        while (fmt[i] == 'l' || fmt[i] == 'z' || fmt[i] == 'h' || fmt[i] == '+') i++;
        if (fmt[i] == 's') { const char *s = va_arg (ap, const char *); int k; if (!s) s = "(null)"; for (k = 0; s[k] && (prec < 0 || k < prec); k++) VPUT (s[k]); continue; }
      }
      if (fmt[i] == 's') { }
      else if (fmt[i] == 'c') { int c = va_arg (ap, int); VPUT ((char) c); }
      else if (fmt[i] == '%') { VPUT ('%'); }
      else if (fmt[i] == 'd' || fmt[i] == 'i' || fmt[i] == 'u')
        {
          long long v; unsigned long long m; char tmp[24]; int k = 0;
          if (fmt[i - 1] == 'l' || fmt[i - 1] == 'z') v = va_arg (ap, long long); else v = va_arg (ap, int);
          if (fmt[i] != 'u' && v < 0) { VPUT ('-'); m = 0ULL - (unsigned long long) v; } else m = (unsigned long long) v;
#ifdef VERIF_FMT_GUESS
          /* decimal conversion as guess-and-check (same function, cheaper formula): the digits are chosen by the
             solver and constrained by Horner evaluation == m with no leading zero and no wrap-around; decimal
             representations are unique, so this is exactly the digit string that repeated division by 10 produces */
          {
            int L = nondet_int (); unsigned long long acc = 0;
            __CPROVER_assume (L >= 1 && L <= 20);
            for (k = 0; k < 20; k++)
              if (k < L)
                {
                  unsigned char d = nondet_uchar ();
                  __CPROVER_assume (d <= 9 && (d != 0 || k > 0 || L == 1));
                  __CPROVER_assume (acc < 1844674407370955161ULL || (acc == 1844674407370955161ULL && d <= 5));
                  acc = acc * 10 + d; tmp[k] = (char) ('0' + d);
                }
            __CPROVER_assume (acc == m);
            for (k = 0; k < 20; k++) if (k < L) VPUT (tmp[k]);
          }
#else
          do { tmp[k++] = (char) ('0' + (int) (m % 10)); m /= 10; } while (m && k < 22);
          while (k > 0) VPUT (tmp[--k]);
#endif
        }
      else { VPUT ('?'); }
    }
  if (!bounded || n < cap) out[n] = 0; else if (cap) out[cap - 1] = 0;
  return (int) n;
}
int sprintf (char *buf, const char *fmt, ...)
{ va_list ap; int r; va_start (ap, fmt); r = verif_fmt (buf, 0, 0, fmt, ap); va_end (ap); return r; }
int snprintf (char *buf, size_t cap, const char *fmt, ...)
{ va_list ap; int r; va_start (ap, fmt); r = verif_fmt (buf, cap, 1, fmt, ap); va_end (ap); return r; }
#endif
