/* typed_arrays.c -- allocator model behind the VERIF_ARRAY_ITEMS hook of lib/lpc/array.h */
#include "all_types.h"
#include "std.h"
#include "lpc/types.h"
#include "lpc/array.h"
#include "verif.h"
#include <stdlib.h>

#ifdef VERIF_ARRAY_ITEMS
/* Typed array blocks (hook in lib/lpc/array.h, DESIGN Corrections 14): an LPC array is one typed object
 * `array_t` with VERIF_ARRAY_ITEMS elements instead of a malloc'd byte block, so that sizes, reference counts
 * and element tags stay visible to CBMC's constant propagation.  A request for more elements than the block
 * holds is outside the encoded bound (cut: reaching it makes the run inconclusive).  Accesses behind `size`
 * but inside the block are NOT flagged in this encoding (the byte-block encoding of the index jobs does that). */
array_t *verif_alloc_array (size_t n)
{
  array_t *a;
  if (n > VERIF_ARRAY_ITEMS) { VERIF_UNREACHABLE ("array larger than the typed block"); }
  a = malloc (sizeof (array_t));
  __CPROVER_assume (a != 0);
  return a;
}
array_t *verif_resize_array (array_t *v, size_t n)
{
  /* realloc: a new block with the old contents; the old block is released (dangling uses are CBMC failures) */
  array_t *a = verif_alloc_array (n);
  *a = *v;
  free (v);
  return a;
}
#endif
