/* verif_in.h -- include after defining IN_FIELDS(S,A); see verif.h */
#ifndef IN_FIELDS
#error "define IN_FIELDS(S,A) before including verif_in.h"
#endif

struct verif_in {
#define VERIF_S_(t, n) t n;
#define VERIF_A_(t, n, k) t n[k];
  IN_FIELDS(VERIF_S_, VERIF_A_)
#undef VERIF_S_
#undef VERIF_A_
};
struct verif_in IN;

#ifndef VERIF_REPLAY
struct verif_in nondet_verif_in(void);
static void verif_in_init(void) { IN = nondet_verif_in(); }
#else
/* replay file: one line per leaf:  <name> <index|-1> <hex u64 little-endian image> */
static void verif_in_init(void)
{
  const char *fn = getenv("VERIF_REPLAY_FILE");
  FILE *f = fn ? fopen(fn, "r") : NULL;
  char key[128]; long idx; unsigned long long v;
  memset(&IN, 0, sizeof IN);
  if (!f) { fprintf(stderr, "REPLAY: cannot open VERIF_REPLAY_FILE\n"); _exit(76); }
  while (fscanf(f, "%127s %ld %llx", key, &idx, &v) == 3) {
    uint64_t vv = v;
#define VERIF_S_(t, n) if (!strcmp(key, #n)) { memcpy(&IN.n, &vv, sizeof IN.n); continue; }
#define VERIF_A_(t, n, k) if (!strcmp(key, #n) && idx >= 0 && idx < (k)) { memcpy(&IN.n[idx], &vv, sizeof IN.n[0]); continue; }
    IN_FIELDS(VERIF_S_, VERIF_A_)
#undef VERIF_S_
#undef VERIF_A_
  }
  fclose(f);
}
void harness(void);
int main(void) { harness(); fprintf(stderr, "REPLAY-END\n"); return 0; }
#endif
