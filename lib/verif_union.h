/* Pre-included (-include) in the CBMC build only: system headers are read with their real unions
 * (transparent unions of glibc must stay unions), then every union of the project's own code is
 * compiled as a struct -- see DESIGN.md "Corrections 1" for the CBMC 6.11 defect this works around. */
#ifndef VERIF_UNION_H
#define VERIF_UNION_H
#include <sys/types.h>
#include <sys/socket.h>
#include <sys/epoll.h>
#include <sys/eventfd.h>
#include <sys/wait.h>
#include <sys/stat.h>
#include <sys/time.h>
#include <sys/resource.h>
#include <sys/ioctl.h>
#include <netinet/in.h>
#include <arpa/inet.h>
#include <arpa/telnet.h>
#include <netdb.h>
#include <signal.h>
#include <setjmp.h>
#include <pthread.h>
#include <stdlib.h>
#include <stdio.h>
#include <string.h>
#include <wchar.h>
#include <time.h>
#include <math.h>
#include <termios.h>
#include <dirent.h>
#include <fcntl.h>
#include <unistd.h>
#include <poll.h>
#include <inttypes.h>
#include <errno.h>
#include <ctype.h>
#include <locale.h>
#include <limits.h>
#include <assert.h>
#include <stdarg.h>
#include <crypt.h>
#define union struct
#endif
