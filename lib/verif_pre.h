/* Pre-included (-include) in every translation unit of the CBMC build.
 * 1. (only with VERIF_UNION_AS_STRUCT) system headers are read first with their real unions, then every union
 *    of the project's own code is compiled as a struct -- DESIGN.md "Corrections 1".
 * 2. all LPC type headers are read in every TU, so that struct types are complete and identical everywhere:
 *    CBMC names anonymous struct/union tags by their full content, including whether nested types are complete,
 *    and its linker inserts casts between such "different" types that later crash the simplifier
 *    (DESIGN.md "Corrections 2"). */
#ifndef VERIF_PRE_H
#define VERIF_PRE_H
#ifdef VERIF_UNION_AS_STRUCT
#include "verif_union.h"
#endif
#include "all_types.h"
#endif
