/* verif.h -- macros shared by every harness (CBMC build and native replay build).
 *
 * CBMC build      : goto-cc -DVERIF_CBMC ...
 * Native replay   : gcc -DVERIF_REPLAY -fsanitize=address,undefined ...
 *
 * Symbolic inputs live in one struct IN described by an X-macro
 *   #define IN_FIELDS(S,A)  S(int64_t, idx)  A(uint8_t, bytes, 6)
 *   #include "verif_in.h"
 * so that the same description produces the nondet initialiser for CBMC and
 * the loader of a recorded counterexample for the native build.
 */
#ifndef VERIF_H
#define VERIF_H
#include <stdint.h>
#include <stddef.h>

#ifdef VERIF_REPLAY
#include <stdio.h>
#include <stdlib.h>
#include <string.h>
#define __CPROVER_assume(c) \
  do { if (!(c)) { fprintf(stderr, "REPLAY-ASSUME-FALSE %s:%d: %s\n", __FILE__, __LINE__, #c); fflush(stderr); _exit(77); } } while (0)
#define __CPROVER_assert(c, msg) \
  do { if (!(c)) { fprintf(stderr, "REPLAY-ASSERT-FAIL: %s (%s:%d)\n", msg, __FILE__, __LINE__); fflush(stderr); _exit(99); } } while (0)
#define VERIF_WITNESS(n) do { fprintf(stderr, "REPLAY-WITNESS %s\n", n); } while (0)
#define VERIF_UNREACHABLE(n) do { fprintf(stderr, "REPLAY-CUT-REACHED %s\n", n); fflush(stderr); _exit(78); } while (0)
#define VERIF_END_PATH() do { fprintf(stderr, "REPLAY-END-PATH\n"); fflush(stderr); _exit(0); } while (0)
#include <unistd.h>
#else
#define VERIF_WITNESS(n) __CPROVER_assert(0, "WITNESS " n)
/* a cut that must not be reached: reaching it makes the run inconclusive */
#define VERIF_UNREACHABLE(n) do { __CPROVER_assert(0, "CUT-REACHED " n); __CPROVER_assume(0); } while (0)
#define VERIF_END_PATH() __CPROVER_assume(0)
#endif

/* the property's own oracle */
#define VERIF_ASSERT(id, c) __CPROVER_assert((c), "ORACLE " id)

#endif
